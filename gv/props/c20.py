"""C20 — every model maps its input signature to exactly its requested output signature."""
import numpy as np
from hypothesis import strategies as st

import jax
import jax.numpy as jnp
import equinox as eqx
import ginjax.geometric as geom
import ginjax.ml as ml  # noqa: F401  (must be imported before ginjax.models: circular import in the library)
import ginjax.models as models

from gv import gen, netgen
from gv.common import exact_equal, first_diff, result, viol
from gv.ref import core as ref

PID = "C20"
TECHNIQUE = "property-based testing over the constructor space of every model class in equivariant and conventional mode: output-signature / shape / metadata predicate (requested types in requested order, restricted to the types reachable through the filter types that exist, computed independently from the character formula), fresh and after a pytree round trip of the model; component-placement probes through ModelWrapper with identifier values"
RULE = (
    "Hypothesis draws (model class in {UNet,ResNet,DilResNet,ConvBlock}, equivariant flag, input/output signatures with several types, pseudo-types, unequal channels, in drawn (unsorted) order, depth, blocks, "
    "num_conv, downsamples, normalisation, pre-activation, bias mode, activation, kernel size, d in {2,3}, torus flag, group/bank, extent compatible with the pooling). The model is applied freshly constructed and after "
    "jax.tree_util.tree_map(identity) (what train / filter_jit do to it). Predicate: the output signature equals, in order, the requested signature restricted (equivariant mode) to the types reachable from the input types "
    "through the existing filter types, layer by layer; channel counts equal; spatial dims, D and is_torus equal the input's. Mode 'wrapper': ModelWrapper around the identity / a drawn channel permutation / a channel "
    "duplication, optionally inside GroupAverage, must put every (type, channel, component) at the documented scalar channel (offset + c*D^k + component) and back (identifier values, exact). Non-trivial: >=2 output types "
    "not in sorted order, or an unreachable requested type, or conventional mode with k>=1; distinct key = constructor tuple."
)
ASSUMPTIONS = [
    "which filter types exist for a group is computed from the character formula (gv.ref.core.burnside), independently of the library's bank",
    "configurations for which a residual sum or skip concatenation would meet different type sets are not generated (the architecture cannot be evaluated there)",
]
CLEAR_CACHES_EVERY = 12
CONFIG = {
    "quick": {"examples": 128, "shards": 16, "shrink_s": 60, "time_budget_s": 280},
    "thorough": {"examples": 2400, "shards": 16, "shrink_s": 240, "time_budget_s": 1500},
}


def draw_case(data, tier):
    mode = data.draw(st.sampled_from(["model", "model", "model", "wrapper"]), label="mode")
    if mode == "wrapper":
        d = data.draw(st.sampled_from([2, 2, 3]), label="d")
        sig = gen.draw_signature(data, d, kmax=2 if d == 2 else 1, min_types=1, max_types=4, cmax=3)
        n_scalar = sum(c * d ** t[0] for t, c in sig)
        kind = data.draw(st.sampled_from(["identity", "permutation", "to_other_signature"]), label="kind")
        case = {"mode": mode, "d": d, "sig": sig, "kind": kind, "N": data.draw(st.integers(1, 3), label="N"), "torus": data.draw(st.booleans(), label="torus"),
                "group_average": data.draw(st.booleans(), label="group_average"), "batch": data.draw(st.sampled_from([0, 0, 3]), label="batch")}
        if kind == "permutation":
            case["perm"] = list(data.draw(st.permutations(list(range(n_scalar))), label="perm"))
        if kind == "to_other_signature":
            case["out_sig"] = gen.draw_signature(data, d, kmax=2 if d == 2 else 1, min_types=1, max_types=4, cmax=3)
        return case
    cfg = netgen.draw_model_cfg(data, tier, classes=["UNet", "ResNet", "DilResNet", "ConvBlock"])
    if not cfg["equivariant"] and cfg["cls"] == "ConvBlock":
        cfg["cls"] = data.draw(st.sampled_from(["UNet", "ResNet", "DilResNet"]), label="cls2")
        if cfg["cls"] == "UNet":
            cfg["num_downsamples"] = 1
            cfg["N"] = 4 if cfg["d"] == 2 else 2
            cfg.pop("shape", None)  # drawn for a ConvBlock: not necessarily a multiple of the pooling factor
    cfg["mode"] = "model"
    cfg["xseed"] = data.draw(st.integers(0, 9999), label="xseed")
    cfg["group_average"] = data.draw(st.integers(0, 3), label="wrap_in_group_average") == 0
    return cfg


class _Perm(eqx.Module):
    idx: tuple = eqx.field(static=True)
    axis: int = eqx.field(static=True)

    def __call__(self, x):
        return jnp.take(x, jnp.asarray(self.idx), axis=self.axis)


def _scalar_layout(d, sig, blocks, lead):
    """Documented conventional-mode layout: scalar channel index = offset(type) + c*D^k + component."""
    cols = []
    for (k, p), c in sig:
        a = blocks[(k, p)]
        sp = a.shape[lead + 1: lead + 1 + d]
        flat = a.reshape(a.shape[:lead] + (c,) + sp + (d**k,))
        for ch in range(c):
            for comp in range(d**k):
                cols.append(flat[(slice(None),) * lead + (ch,) + (slice(None),) * d + (comp,)])
    return np.stack(cols, axis=lead)


def _wrapper_case(case):
    """The same signature is pushed through the conventional re-layout in the drawn dimension and then in the other one
    (when the signature exists there): anything memoised per layout but depending on D shows up in the second pass."""
    d0 = case["d"]
    kmax = max(t[0][0] for t in case["sig"] + case.get("out_sig", []))
    dims = [d0] + ([5 - d0] if (kmax <= 1 or 5 - d0 == 2) else [])
    res = None
    for d in dims:
        res = _wrapper_one(dict(case, d=d))
        if res["violation"] is not None:
            return res
    return res


def _wrapper_one(case):
    d, N = case["d"], case["N"]
    sig = gen.sig_tuple(case["sig"])
    lead = 1 if case["batch"] else 0
    labels = ["mode_wrapper", "kind_" + case["kind"], f"d{d}", "ga" if case["group_average"] else "plain", f"batch{case['batch']}"]
    key = ["wrapper", d, case["sig"], case["kind"], case.get("perm"), case.get("out_sig"), N, case["group_average"], case["batch"]]
    start = 1
    blocks = {}
    for t, c in sig:
        shp = ((case["batch"],) if lead else ()) + (c,) + (N,) * d + (d,) * t[0]
        a = gen.ident_array(shp, start=start)
        start += a.size
        blocks[t] = a
    tor = (case["torus"],) * d
    x = geom.MultiImage({t: jnp.asarray(a, dtype=jnp.float32) for t, a in blocks.items()}, d, tor)
    # the flattening uses the storage order of the multi-image the model actually receives: under jax.vmap that is the
    # sorted order (pytree round trip of the argument), in a direct call the insertion order
    runtime_sig = sorted(sig) if lead else sig
    scal = _scalar_layout(d, runtime_sig, blocks, lead)
    n_scalar = scal.shape[lead]
    out_sig = sig
    if case["kind"] == "identity":
        inner = _Perm(tuple(range(n_scalar)), 0)
        exp_scal = scal
    elif case["kind"] == "permutation":
        perm = case["perm"] if len(case["perm"]) == n_scalar else list(range(n_scalar))[::-1]  # second dimension: reversal
        inner = _Perm(tuple(perm), 0)
        exp_scal = np.take(scal, perm, axis=lead)
    else:
        out_sig = gen.sig_tuple(case["out_sig"])
        n_out = sum(c * d ** t[0] for t, c in out_sig)
        idx = tuple(i % n_scalar for i in range(n_out))
        inner = _Perm(idx, 0)
        exp_scal = np.take(scal, idx, axis=lead)
    model = models.ModelWrapper(d, inner, out_sig, tor)
    fn = model
    if case["group_average"]:
        fn = models.GroupAverage(model, [np.eye(d, dtype=int)], always_average=True)
    if lead:
        out = jax.vmap(lambda m: fn(m)[0])(x)
    else:
        out = fn(x)[0]
    # through jax.vmap the data dict of the *result* is rebuilt with sorted keys (accepted by C12/C13: pytree flattening
    # reorders blocks); the order is therefore only compared for the direct call
    got_sig = out.get_signature()
    if (sorted(got_sig) != sorted(out_sig)) if lead else (got_sig != tuple(out_sig)):
        return result(viol("C20/wrapper/signature", f"{got_sig} requested {tuple(out_sig)}"), True, key, labels)
    if out.D != d or tuple(out.is_torus) != tor or tuple(out.get_spatial_dims()) != (N,) * d:
        return result(viol("C20/wrapper/metadata", f"D={out.D} torus={out.is_torus} dims={out.get_spatial_dims()}"), True, key, labels)
    got_scal = _scalar_layout(d, out_sig, {t: np.asarray(v) for t, v in out.items()}, lead)
    if not exact_equal(got_scal, exp_scal):
        return result(viol("C20/wrapper/placement", f"{case['kind']}: a component is not at its own position: {first_diff(got_scal, exp_scal)}"), True, key, labels)
    return result(None, any(t[0] >= 1 for t, _ in sig), key, labels)


def run_case(cfg):
    if cfg["mode"] == "wrapper":
        return _wrapper_case(cfg)
    d = cfg["d"]
    eqv = cfg["equivariant"]
    labels = ["mode_model", "cls_" + cfg["cls"], f"d{d}", "equivariant" if eqv else "conventional", "norm" if cfg["group_norm"] else "nonorm", f"bias_{cfg['bias']}",
              "torus" if cfg["torus"] else "notorus"]
    key = netgen.cfg_key(cfg)
    out_sig = gen.sig_tuple(cfg["out_sig"])
    if eqv:
        expected = netgen.simulate_types(cfg)
        if expected is None:
            return result(None, False, key, labels + ["architecture_not_evaluable_for_bank"])
        expected = tuple(expected)
        if len(expected) < len(out_sig):
            labels.append("unreachable_requested_type")
    else:
        expected = tuple(out_sig)
    types = [t for t, _ in out_sig]
    unsorted = types != sorted(types)
    if unsorted:
        labels.append("requested_order_unsorted")
    nontrivial = (len(types) >= 2 and unsorted) or (eqv and len(expected) < len(out_sig)) or ((not eqv) and any(t[0] >= 1 for t in types))
    model = netgen.build_model(cfg)
    X = netgen.model_input(cfg, cfg["xseed"])
    tor = (bool(cfg["torus"]),) * d
    x = netgen.to_mi(d, X, cfg["torus"])
    variants = [("fresh", model), ("tree_map", jax.tree_util.tree_map(lambda v: v, model))]
    if cfg.get("group_average") and len(set(netgen.model_shape(cfg))) == 1:
        labels.append("group_average_wrapped")
        variants.append(("group_average", models.GroupAverage(model, netgen.group_ops(d, "C2"), always_average=True)))
    for name, m in variants:
        out = netgen.call_model(m, x)
        got = out.get_signature()
        if set(got) != set(expected):
            return result(viol(f"C20/{cfg['cls']}/signature-set", f"{name}: output signature {got}, requested (reachable) {expected}; config {key}"), nontrivial, key, labels)
        if tuple(got) != expected:
            return result(viol(f"C20/type-order/{name}", f"{cfg['cls']} ({'equivariant' if eqv else 'conventional'}), {name} model: output types in order {[t for t, _ in got]}, requested order {[t for t, _ in expected]}"), nontrivial, key, labels)
        if out.D != d or tuple(out.is_torus) != tor:
            return result(viol(f"C20/{cfg['cls']}/metadata", f"{name}: D={out.D} is_torus={out.is_torus} expected {tor}"), nontrivial, key, labels)
        shp = netgen.model_shape(cfg)
        if expected and tuple(out.get_spatial_dims()) != shp:
            return result(viol(f"C20/{cfg['cls']}/spatial", f"{name}: spatial dims {out.get_spatial_dims()} input {shp}"), nontrivial, key, labels)
        for (t, c) in expected:
            if np.asarray(out[t]).shape != (c,) + shp + (d,) * t[0]:
                return result(viol(f"C20/{cfg['cls']}/block-shape", f"{name}: block {t} shape {np.asarray(out[t]).shape}"), nontrivial, key, labels)
    return result(None, nontrivial, key, labels, evals=2)
