"""C02 — the group action on images is a genuine, type-correct group action."""
import itertools as it

import numpy as np
from hypothesis import strategies as st

import jax.numpy as jnp
import ginjax.geometric as geom

from gv import gen
from gv.common import exact_equal, first_diff, result, viol
from gv.ref import core as ref

PID = "C02"
TECHNIQUE = "property-based testing: generated (shape,type,layout,g,h) cases + exhaustive (g,h) enumeration against an independent reference action (exact integer oracle)"
RULE = (
    "Hypothesis draws d in {1,2,3}, a spatial shape from forced classes (cubic / two equal / pairwise distinct / "
    "contains extent 1), (k,p) with k<=3, per-axis torus flags, an entry point (array-level, GeometricImage, MultiImage "
    "with 0/1/2 leading axes of distinct sizes) ; inside the case every g of B_d (d<=2: every (g,h) pair; d=3: all 48 g "
    "plus drawn (g,h) pairs) is applied to identifier images / the complete one-hot basis and compared exactly with the "
    "reference action; group laws, linearity, bijection, norm transport and metadata transport are checked. The thorough tier "
    "also enumerates all (g,h) in B_3xB_3 on a fixed shape family. A case is non-trivial when some g != e moves the "
    "image; distinct key = (d, shape, k, p, entry, lead sizes, torus flags)."
)
ASSUMPTIONS = [
    "float32 arithmetic on integers below 2^24 is exact (asserted by construction: identifier values <= size of image)",
    "reference action gv.ref.core.action is correct (self-tested against a pixel-by-pixel formulation)",
    "MultiImage with 0 leading axes and several types is rejected by append() (clean rejection, not generated)",
]
CONFIG = {
    "quick": {"examples": 480, "shards": 16, "shrink_s": 40, "time_budget_s": 240},
    "thorough": {"examples": 5000, "shards": 16, "shrink_s": 200, "time_budget_s": 1500},
}
EXHAUSTIVE = {"thorough": "all (g,h) in B_3 x B_3 (2304 pairs) x 6 fixed shapes x (k,p) in {0,1}x{0,1}, array-level entry"}

LIB_OPS_CHECKED = {}


def _lib_ops_same_set(d):
    """make_all_operators(d) is the same *set* as the reference group (checked once)."""
    if d not in LIB_OPS_CHECKED:
        lib = {ref.gkey(np.asarray(g)) for g in geom.make_all_operators(d)}
        mine = {ref.gkey(g) for g in gen.ops(d)}
        LIB_OPS_CHECKED[d] = (lib == mine) and len(geom.make_all_operators(d)) == len(gen.ops(d))
    return LIB_OPS_CHECKED[d]


def draw_case(data, tier):
    d = data.draw(st.sampled_from([1, 2, 2, 3, 3]), label="d")
    big = data.draw(st.integers(0, 5), label="big_extents") == 0
    if big and d > 1:
        # thin strips / slabs with a two-digit extent: one extent in 10..12, the others in 1..2, in a drawn axis order
        ext = [data.draw(st.integers(10, 12), label="long_extent")] + [data.draw(st.integers(1, 2), label="short_extent") for _ in range(d - 1)]
        shape = tuple(data.draw(st.permutations(ext), label="axis_order"))
        cls = "strip"
    else:
        hi = {1: 6, 2: 5, 3: 4}[d] if not big else 40
        shape, cls = gen.draw_shape(data, d, 1, hi)
    k, p = gen.draw_type(data, d, (3 if d == 2 else 2) if not (big and d > 1) else 1)
    entry = data.draw(st.sampled_from(["array", "gi", "mi", "mi"]), label="entry")
    torus = gen.draw_torus(data, d)
    case = {"d": d, "shape": list(shape), "k": k, "p": p, "entry": entry, "torus": list(torus)}
    if entry == "mi":
        nlead = data.draw(st.integers(0, 2), label="nlead")
        case["lead"] = data.draw(st.permutations([5, 7, 3]), label="lead")[:nlead]
        if nlead > 0:
            extra = data.draw(st.integers(0, 2), label="extra_types")
            others = [t for t in [(0, 0), (0, 1), (1, 0), (1, 1), (2, 0)] if t != (k, p) and (d > 1 or t[0] == 0)]
            case["extra"] = [list(t) for t in data.draw(st.permutations(others))[:extra]]
        else:
            case["extra"] = []
    if d == 3:
        npairs = 6 if tier == "quick" else 12
        case["pairs"] = [[gen.draw_g(data, 3, "pg"), gen.draw_g(data, 3, "ph")] for _ in range(npairs)]
    case["ab"] = [data.draw(st.integers(-3, 3), label="a"), data.draw(st.integers(-3, 3), label="b")]
    return case


def enumerate_cases(tier):
    if tier != "thorough":
        return []
    cases = []
    shapes = [(2, 3, 4), (1, 2, 3), (2, 2, 3), (3, 3, 3), (4, 1, 1), (2, 4, 2)]
    for shape in shapes:
        for k in (0, 1):
            for p in (0, 1):
                for gi in range(48):
                    cases.append({"d": 3, "shape": list(shape), "k": k, "p": p, "entry": "array", "torus": [True] * 3,
                                  "pairs": [[gi, hi] for hi in range(48)], "only_pairs": True, "ab": [2, -3]})
    return cases


def _lib_array(d, A, p, g):
    return np.asarray(geom.times_group_element(d, jnp.asarray(A, dtype=jnp.float32), p, np.asarray(g)))


def _check_array_level(d, shape, k, p, glist, pairs, ab, only_pairs=False):
    """Array-level checks. Returns violation or None, and number of evaluations."""
    ops = gen.ops(d)
    A = gen.ident_array(tuple(shape) + (d,) * k)
    B = gen.ident_array(tuple(shape) + (d,) * k, start=7)[..., ::-1] if k > 0 else gen.ident_array(tuple(shape), start=3)[::-1]
    B = np.ascontiguousarray(B)
    e = np.eye(d, dtype=np.int64)
    evals = 0
    scls = gen.shape_class(shape)
    if not only_pairs:
        got = _lib_array(d, A, p, e)
        if not exact_equal(got, A):
            return viol("C02/array/identity", f"identity does not act trivially: {first_diff(got, A)}"), evals
        for gi in glist:
            g = ops[gi]
            evals += 1
            exp = ref.action(d, A, p, g)
            got = _lib_array(d, A, p, g)
            if not exact_equal(got, exp):
                return viol(f"C02/array/definition/{gen.perm_class(g)}",
                            f"g#{gi}={g.tolist()} shape={shape} k={k} p={p}: {first_diff(got, exp)}", g=gi), evals
            # bijection on pixels: the multiset of |entries| is preserved
            if sorted(np.abs(got).reshape(-1).tolist()) != sorted(np.abs(A).reshape(-1).tolist()):
                return viol(f"C02/array/bijection/{gen.perm_class(g)}", f"g#{gi}: entries are not a signed permutation of the input"), evals
            # isometry: per-pixel squared norm image transforms as a scalar image
            if k > 0:
                n_in = (A.astype(np.int64) ** 2).reshape(tuple(shape) + (-1,)).sum(-1)
                n_out = (np.asarray(got).astype(np.int64) ** 2).reshape(got.shape[:d] + (-1,)).sum(-1)
                if not exact_equal(n_out, ref.action(d, n_in, 0, g)):
                    return viol("C02/array/isometry", f"g#{gi}: pixel norms not carried by the pixel bijection"), evals
            # inverse
            back = _lib_array(d, got, p, g.T)
            if not exact_equal(back, A):
                return viol(f"C02/array/inverse/{gen.perm_class(g)}", f"g#{gi}: g^-1.(g.A) != A: {first_diff(back, A)}"), evals
            # linearity
            a, b = ab
            lhs = _lib_array(d, a * A + b * B, p, g)
            rhs = a * got + b * _lib_array(d, B, p, g)
            if not exact_equal(lhs, rhs):
                return viol("C02/array/linearity", f"g#{gi}: lib(g,aA+bB) != a lib(g,A)+b lib(g,B): {first_diff(lhs, rhs)}"), evals
    for gi, hi in pairs:
        g, h = ops[gi], ops[hi]
        evals += 1
        one = _lib_array(d, _lib_array(d, A, p, h), p, g)
        two = _lib_array(d, A, p, g @ h)
        if not exact_equal(one, two):
            return viol(f"C02/array/composition", f"g#{gi}.(h#{hi}.A) != (gh).A on shape {shape}: {first_diff(one, two)}", g=gi, h=hi), evals
        if only_pairs and hi == 0:
            exp = ref.action(d, A, p, g)
            got = _lib_array(d, A, p, g)
            if not exact_equal(got, exp):
                return viol(f"C02/array/definition/{gen.perm_class(g)}", f"g#{gi} shape={shape}: {first_diff(got, exp)}", g=gi), evals
    return None, evals


def run_case(case):
    d, shape, k, p = case["d"], tuple(case["shape"]), case["k"], case["p"]
    entry = case["entry"]
    torus = tuple(bool(t) for t in case["torus"])
    ops = gen.ops(d)
    labels = [f"d{d}", "shape_" + gen.shape_class(shape), f"k{k}", f"p{p}", "entry_" + entry,
              "torus_mixed" if len(set(torus)) > 1 else "torus_uniform"]
    if 1 in shape:
        labels.append("extent1")
    key = [d, shape, k, p, entry, case.get("lead"), torus, case.get("extra")]
    if d >= 2 and not _lib_ops_same_set(d):
        return result(viol("C02/group/operator-set", f"make_all_operators({d}) is not B_{d}"), True, key, labels)
    glist = list(range(len(ops)))
    pairs = [tuple(x) for x in case.get("pairs", [])] if d == 3 else list(it.product(glist, glist))
    only_pairs = bool(case.get("only_pairs"))
    nontrivial = int(np.prod(shape)) * d**k > 1 and len(ops) > 1
    v, evals = _check_array_level(d, shape, k, p, glist, pairs, case["ab"], only_pairs)
    if v is not None or entry == "array":
        return result(v, nontrivial, key, labels, evals)

    if entry == "gi":
        A = gen.ident_array(shape + (d,) * k)
        img = geom.GeometricImage(jnp.asarray(A, dtype=jnp.float32), p, d, torus)
        for gi in glist:
            g = ops[gi]
            evals += 1
            out = img.times_group_element(np.asarray(g))
            exp = ref.action(d, A, p, g)
            if not exact_equal(np.asarray(out.data), exp):
                return result(viol("C02/gi/definition", f"g#{gi}: {first_diff(np.asarray(out.data), exp)}", g=gi), nontrivial, key, labels, evals)
            if (out.D, out.k, out.parity) != (d, k, p):
                return result(viol("C02/gi/metadata-type", f"g#{gi}: (D,k,parity)={(out.D, out.k, out.parity)} expected {(d, k, p)}"), nontrivial, key, labels, evals)
            if tuple(out.spatial_dims) != ref.transport(shape, g):
                return result(viol("C02/gi/metadata-extents", f"g#{gi}: spatial_dims={out.spatial_dims} expected {ref.transport(shape, g)}"), nontrivial, key, labels, evals)
            if tuple(out.is_torus) != ref.transport(torus, g):
                return result(viol("C02/gi/metadata-torus", f"g#{gi}={g.tolist()}: is_torus={out.is_torus} expected {ref.transport(torus, g)} (input flags {torus})", g=gi), nontrivial, key, labels, evals)
        return result(None, nontrivial, key, labels, evals)

    # multi-image entry point
    lead = tuple(case.get("lead", []))
    types = [(k, p)] + [tuple(t) for t in case.get("extra", [])]
    labels.append(f"lead{len(lead)}")
    labels.append(f"types{len(types)}")
    blocks = {}
    use_basis = len(lead) >= 1
    for ti, (tk, tp) in enumerate(types):
        if ti == 0 and use_basis:
            # complete one-hot basis pushed through the leading axes (padded/truncated to the lead size)
            n = int(np.prod(lead))
            full = gen.basis(shape + (d,) * tk)
            reps = -(-n // len(full))
            stack = np.concatenate([full * (r + 1) for r in range(reps)], axis=0)[:n]
            blk = stack.reshape(lead + shape + (d,) * tk)
            labels.append("basis_complete" if n >= len(full) else "basis_partial")
        else:
            blk = gen.ident_array(lead + shape + (d,) * tk, start=1 + ti)
        blocks[(tk, tp)] = blk
    mi = geom.MultiImage({t: jnp.asarray(b, dtype=jnp.float32) for t, b in blocks.items()}, d, torus)
    for gi in glist:
        g = ops[gi]
        evals += 1
        out = mi.times_group_element(np.asarray(g))
        if list(out.keys()) != list(mi.keys()):
            return result(viol("C02/mi/types", f"g#{gi}: output types {list(out.keys())} != input {list(mi.keys())}"), nontrivial, key, labels, evals)
        for (tk, tp), blk in blocks.items():
            exp = ref.action(d, blk, tp, g, lead=len(lead))
            got = np.asarray(out[(tk, tp)])
            if not exact_equal(got, exp):
                return result(viol("C02/mi/definition", f"g#{gi}={g.tolist()} type {(tk, tp)} lead={lead} shape={shape}: {first_diff(got, exp)}", g=gi), nontrivial, key, labels, evals)
        if out.D != d:
            return result(viol("C02/mi/metadata-type", f"D={out.D}"), nontrivial, key, labels, evals)
        if tuple(out.get_spatial_dims()) != ref.transport(shape, g):
            return result(viol("C02/mi/metadata-extents", f"g#{gi}: {out.get_spatial_dims()} expected {ref.transport(shape, g)}"), nontrivial, key, labels, evals)
        if tuple(out.is_torus) != ref.transport(torus, g):
            return result(viol("C02/mi/metadata-torus", f"g#{gi}={g.tolist()}: is_torus={out.is_torus} expected {ref.transport(torus, g)} (input flags {torus})", g=gi), nontrivial, key, labels, evals)
    # composition through the multi-image entry point
    for gi, hi in (pairs if d < 3 else pairs[:6]):
        g, h = ops[gi], ops[hi]
        one = mi.times_group_element(np.asarray(h)).times_group_element(np.asarray(g))
        two = mi.times_group_element(np.asarray(g @ h))
        for t in blocks:
            if not exact_equal(np.asarray(one[t]), np.asarray(two[t])):
                return result(viol("C02/mi/composition", f"g#{gi},h#{hi} type {t}: {first_diff(np.asarray(one[t]), np.asarray(two[t]))}"), nontrivial, key, labels, evals)
        if tuple(one.is_torus) != tuple(two.is_torus):
            return result(viol("C02/mi/metadata-torus", f"composition g#{gi},h#{hi}: flags differ {one.is_torus} vs {two.is_torus}"), nontrivial, key, labels, evals)
    return result(None, nontrivial, key, labels, evals)
