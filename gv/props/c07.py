"""C07 — equivariant networks are equivariant end to end."""
import itertools as it

import numpy as np
from hypothesis import strategies as st

import jax
import jax.numpy as jnp
import ginjax.geometric as geom

from gv import gen, netgen
from gv.common import FLOAT_TOL, rel_defect, result, viol
from gv.ref import core as ref

PID = "C07"
TECHNIQUE = "property-based metamorphic testing over the architecture constructor space: model(g.x) == g.model(x) (reference action, requested output types) with parameters perturbed away from initialisation, for a generating set of the filter group plus drawn elements; cyclic shifts on toroidal inputs; float tolerance with robust re-draw"
RULE = (
    "Hypothesis draws a point of the constructor space: class in {UNet, ResNet, DilResNet, ConvBlock} x depth 1..3 x blocks 1..2 x num_conv 1..2 x downsamples 1..2 x activation {relu,gelu,tanh,None} x group norm on/off x "
    "pre-activation on/off x bias mode {auto,mean,scalar,True,False} x input/output signatures (k<=1 with normalisation or d=3, k<=2 otherwise, pseudo-types, unequal channels, drawn order) x default or explicit "
    "mid_keys x d in {2,3} x torus flag x group G in {B_d, rotations, C2^d} with side-3 and side-2 banks x spatial extent compatible with the pooling. Every trainable inexact leaf except the filter banks is replaced "
    "by leaf + s*N(0,1), s in {0.2,0.3,0.5}; inputs are N(0,1). For a generating set of G plus 3 drawn elements (thorough tier, d=2: all of G) and every output block: relative defect (max|l-r| / max(|l|,|r|,1e-2)) of model(g.x) vs g.model(x) "
    "with the requested output type < 2e-3, reported only if it persists on 3 fresh inputs. On toroidal inputs: arbitrary cyclic shifts (ResNets, ConvBlock), shifts by multiples of 2^downsamples (U-Net). "
    "Non-trivial: max parameter change > 0.1, a g with det -1 was applied, output not ~0; distinct key = constructor tuple."
)
ASSUMPTIONS = [
    "configurations the constructors document as unsupported are not generated (normalisation with k>=2; pre-activation ConvBlock with different input/output signatures; banks for which a residual sum would meet different type sets)",
    "relative-defect threshold 2e-3 (see DESIGN 1.3); max-pool ties are measure-zero for N(0,1) inputs and covered by the re-draw rule",
    "cases in which some max-pooling patch has its two largest pixel norms within a relative 1e-3 of each other (observed by a harness-side wrapper of MaxNormPool.__call__) are excluded (label pool_tie_excluded): max pooling is only required to be equivariant where the maximum is unique",
    "a float defect above the tolerance is not reported when the model is numerically ill-conditioned at that input: a relative perturbation of 1e-6 of the input or of the parameters already moves an output block by more than tolerance/4 (label ill_conditioned_excluded)",
    "evaluations whose outputs are non-finite or exceed 1e6 in magnitude on either side (float32 ill-conditioning of the eigh whitening far from initialisation) are excluded and counted under the label nonfinite_or_huge_excluded",
]
CLEAR_CACHES_EVERY = 12
CONFIG = {
    "quick": {"examples": 64, "shards": 16, "shrink_s": 60, "time_budget_s": 280},
    "thorough": {"examples": 800, "shards": 16, "shrink_s": 240, "time_budget_s": 1500},
}


FLOOR = 1e-2  # outputs of freshly initialised networks can be small: measure the defect relative to max(|lhs|,|rhs|,1e-2)


def draw_case(data, tier):
    cfg = netgen.draw_model_cfg(data, tier, equivariant=True)
    cfg["pscale"] = data.draw(st.sampled_from([0.2, 0.3, 0.5]), label="pscale")
    cfg["pseed"] = data.draw(st.integers(0, 99999), label="pseed")
    cfg["xseed"] = data.draw(st.integers(0, 99999), label="xseed")
    cfg["gs"] = [gen.draw_g(data, cfg["d"], "g") for _ in range(3)]
    cfg["all_g"] = tier == "thorough" and cfg["d"] == 2
    return cfg


class _PoolMarginProbe:
    """Harness-side observation of the carve-out "the per-patch maximum norm is attained at a unique pixel": while active,
    ml.MaxNormPool.__call__ is wrapped so that the smallest relative gap between the two largest pixel norms of any patch is
    recorded (eager calls only; traced calls pass through). Nothing in /repo is touched."""

    def __init__(self):
        self.min_margin = float("inf")

    def __enter__(self):
        import jax
        import ginjax.ml.layers as layers

        self._cls = layers.MaxNormPool
        self._orig = layers.MaxNormPool.__call__
        probe = self

        def wrapped(self_layer, x):
            try:
                for (k, p), blk in x.items():
                    if isinstance(blk, jax.core.Tracer):
                        continue
                    a = np.asarray(blk, dtype=np.float64)
                    D = x.D
                    P = self_layer.patch_len
                    flat = a.reshape(a.shape[: 1 + D] + (-1,))  # (c, spatial, comps)
                    shp = (a.shape[0],)
                    for n in a.shape[1 : 1 + D]:
                        shp += (n // P, P)
                    v = flat.reshape(shp + (flat.shape[-1],))
                    # (c, patches..., pixels-in-patch, comps)
                    v = np.moveaxis(v, [2 * i + 2 for i in range(D)], list(range(-D - 1, -1)))
                    v = v.reshape(v.shape[: 1 + D] + (-1, flat.shape[-1]))
                    nr = np.sqrt((v**2).sum(-1))
                    order = np.argsort(nr, axis=-1)
                    if nr.shape[-1] >= 2:
                        i1, i2 = order[..., -1:], order[..., -2:-1]
                        n1 = np.take_along_axis(nr, i1, -1)[..., 0]
                        n2 = np.take_along_axis(nr, i2, -1)[..., 0]
                        v1 = np.take_along_axis(v, i1[..., None], -2)[..., 0, :]
                        v2 = np.take_along_axis(v, i2[..., None], -2)[..., 0, :]
                        scale = np.maximum(n1, 1e-30)
                        gap = (n1 - n2) / scale
                        differ = np.abs(v1 - v2).max(-1) / scale > 1e-3  # a tie between equal values is harmless
                        harmful = gap[differ]
                        if harmful.size:
                            probe.min_margin = min(probe.min_margin, float(harmful.min()))
            except Exception:  # noqa: BLE001  (the probe must never disturb the call)
                pass
            return probe._orig(self_layer, x)

        layers.MaxNormPool.__call__ = wrapped
        return self

    def __exit__(self, *a):
        self._cls.__call__ = self._orig


def check_equivariance(cfg, model, prop="C07", evals_box=None):
    """Shared with C09: returns (violation|None, labels, nontrivial info)."""
    d = cfg["d"]
    G = ref.named_group(cfg["G"], d)
    gens = ref.generators(G[0:], d)
    ops = gen.ops(d)
    extra = [ops[i] for i in cfg["gs"] if any(ref.gkey(ops[i]) == ref.gkey(h) for h in G)]
    elems = G if cfg.get("all_g") else gens + extra
    # make sure a reflection is present when the group has one
    if not any(ref.det(g) == -1 for g in elems):
        refl = [g for g in G if ref.det(g) == -1]
        if refl:
            elems = elems + [refl[0]]
    labels = []
    tor = bool(cfg["torus"])

    def run(X):
        out = netgen.call_model(model, netgen.to_mi(d, X, tor))
        return out

    X = netgen.model_input(cfg, cfg["xseed"])
    with _PoolMarginProbe() as probe:
        base = run(X)
    base_np = {t: np.asarray(v) for t, v in base.items()}
    evals = 0
    if probe.min_margin < 1e-3:
        # norm ties inside a max-pooling patch (typically a channel collapsed to +-const by a vector-neuron ReLU): the
        # property requires equivariance of max pooling only where the maximum is attained at a unique pixel
        labels.append("pool_tie_excluded")
        return None, labels, evals, base_np

    def degenerate(blocks):
        """float32 carve-out: non-finite or astronomically large activations (ill-conditioned whitening far away from
        initialisation) say nothing about the mathematical map; such evaluations are excluded and counted, never reported."""
        return any((not np.isfinite(a).all()) or np.max(np.abs(a), initial=0.0) > 1e6 for a in blocks.values())

    def defect(Xd, g, b=None):
        b = b if b is not None else {t: np.asarray(v) for t, v in run(Xd).items()}
        gX = {t: ref.action(d, a, t[1], g, lead=1) for t, a in Xd.items()}
        lhs = {t: np.asarray(v) for t, v in run(gX).items()}
        if set(lhs) != set(b):
            return float("inf"), "type-set"
        if degenerate(b) or degenerate(lhs):
            labels.append("nonfinite_or_huge_excluded")
            return 0.0, None
        worst = (0.0, None)
        for t in b:
            if lhs[t].shape != ref.transport(b[t].shape[1:1 + d], g) and False:
                pass
            df = rel_defect(lhs[t], ref.action(d, b[t], t[1], g, lead=1), floor=FLOOR)
            if df > worst[0]:
                worst = (df, t)
        return worst

    def ill_conditioned(Xd):
        """Round-off amplification guard: if a relative perturbation of 1e-6 (float32 round-off scale) of the input or of the
        parameters already moves some output block by more than a quarter of the tolerance, a defect of that size says nothing
        about equivariance. Typical causes: a channel that is identically zero mathematically (an antisymmetric filter on a
        2-pixel torus) or that survives only as the eps-sized residue x - x*|v|/(|v|+eps) of a vector-neuron ReLU (cancellation
        leaves ~1% relative noise), blown up again by every normalisation layer and by near-ties in max pooling."""
        import equinox as eqx
        import jax

        rngp = np.random.default_rng(12345)
        a0 = {t: np.asarray(v) for t, v in run(Xd).items()}
        Xp = {t: (a * (1.0 + 1e-6 * rngp.standard_normal(a.shape))).astype(np.float32) for t, a in Xd.items()}
        a1 = {t: np.asarray(v) for t, v in run(Xp).items()}
        if any(rel_defect(a1[t], a0[t], floor=FLOOR) > FLOAT_TOL / 4 for t in a0):
            return True
        leaves, treedef = jax.tree_util.tree_flatten(model)
        pert = [l * (1.0 + 1e-6 * jnp.asarray(rngp.standard_normal(l.shape), dtype=l.dtype)) if eqx.is_inexact_array(l) else l for l in leaves]
        model_p = jax.tree_util.tree_unflatten(treedef, pert)
        a2 = {t: np.asarray(v) for t, v in netgen.call_model(model_p, netgen.to_mi(d, Xd, tor)).items()}
        return any(rel_defect(a2[t], a0[t], floor=FLOOR) > FLOAT_TOL / 4 for t in a0)

    for g in elems:
        evals += 1
        df, t = defect(X, g, base_np)
        if df > FLOAT_TOL:
            fresh = [netgen.model_input(cfg, cfg["xseed"] + 1 + j) for j in range(3)]
            if not all(defect(f, g)[0] > FLOAT_TOL for f in fresh):
                labels.append("redraw_rescued")
                continue
            if ill_conditioned(X):
                labels.append("ill_conditioned_excluded")
                continue
            return viol(f"{prop}/equivariance/{cfg['cls']}", f"g={np.asarray(g).tolist()} det={ref.det(g)}: output block {t} relative defect {df:.3g}; config {netgen.cfg_key(cfg)}"), labels, evals, base_np
    if tor and not cfg.get("no_translation"):
        labels.append("translations")
        step = 2 ** cfg["num_downsamples"] if cfg["cls"] == "UNet" else 1
        shp = netgen.model_shape(cfg)
        rng = np.random.default_rng(cfg["xseed"])
        shifts = [tuple(step if i == ax else 0 for i in range(d)) for ax in range(d)]
        shifts += [tuple(int(step * rng.integers(0, max(1, n // step))) for n in shp) for _ in range(2)]
        for s in shifts:
            if not any(v % n for v, n in zip(s, shp)):
                continue
            evals += 1
            lhs = {t: np.asarray(v) for t, v in run({t: ref.roll(a, s, d, lead=1) for t, a in X.items()}).items()}
            if degenerate(base_np) or degenerate(lhs):
                labels.append("nonfinite_or_huge_excluded")
                continue
            for t in base_np:
                df = rel_defect(lhs[t], ref.roll(base_np[t], s, d, lead=1), floor=FLOOR)
                if df > FLOAT_TOL and ill_conditioned(X):
                    labels.append("ill_conditioned_excluded")
                    continue
                if df > FLOAT_TOL:
                    return viol(f"{prop}/translation/{cfg['cls']}", f"shift {s}: block {t} relative defect {df:.3g}; config {netgen.cfg_key(cfg)}"), labels, evals, base_np
    if any(ref.det(g) == -1 for g in elems) or not any(ref.det(g) == -1 for g in G):
        labels.append("reflection_applied")  # (or the group has none)
    return None, labels, evals, base_np


def run_case(cfg):
    d = cfg["d"]
    labels = ["cls_" + cfg["cls"], f"d{d}", "G_" + cfg["G"], "norm" if cfg["group_norm"] else "nonorm", "preact" if cfg["preact"] else "postact",
              f"bias_{cfg['bias']}", "torus" if cfg["torus"] else "notorus", "act_" + cfg["act"], "nonsquare" if len(set(netgen.model_shape(cfg))) > 1 else "square"]
    if any(t[0][1] == 1 for t in cfg["in_sig"] + cfg["out_sig"] + cfg.get("mid_sig", [])):
        labels.append("pseudo_type")
    if netgen.simulate_types(cfg) is None:
        return result(None, False, netgen.cfg_key(cfg), labels + ["architecture_not_evaluable_for_bank"])
    model0 = netgen.build_model(cfg)
    model = netgen.perturb(model0, cfg["pseed"], cfg["pscale"])
    delta = netgen.max_param_delta(model0, model)
    v, labs, evals, base = check_equivariance(cfg, model)
    labels += labs
    out_mag = max([float(np.max(np.abs(a))) for a in base.values()] + [0.0])
    if not base:
        labels.append("empty_output")
    nontrivial = delta > 0.1 and "reflection_applied" in labels and out_mag > 1e-6
    return result(v, nontrivial, netgen.cfg_key(cfg), labels, evals)
