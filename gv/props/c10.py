"""C10 — symmetrisation wrappers make any inner model equivariant."""
import numpy as np
from hypothesis import strategies as st

import jax
import jax.numpy as jnp
import ginjax.geometric as geom
import ginjax.ml as ml  # noqa: F401  (import order: ginjax.ml before ginjax.models)
import ginjax.models as models

from gv import gen
from gv.common import exact_equal, first_diff, rel_defect, result, viol
from gv.ref import core as ref

PID = "C10"
TECHNIQUE = "property-based metamorphic testing with generated adversarial (non-equivariant, nonlinear, position-dependent, channel-mixing) inner models: GroupAverage(g.x) == g.GroupAverage(x) for every g of a generated group closed under product; averaging off == inner model bit for bit; Climate1D equator-flip equivariance, exact round trip from1d(to1d(x)) and longitude-flip relation on identifier values"
RULE = (
    "mode 'average': Hypothesis draws d in {2,3}, a group G out of {B_d, rotations, C2^d, cyclic C4, a single reflection, trivial, pure permutations}, independent input and output signatures (k<=2 for d=2, k<=1 for d=3, pseudo-types, "
    "drawn order), the four (always_average, inference) flag combinations, square and non-square inputs (for axis-permuting groups too: the inner family accepts any extents), mixed torus flags, and an inner model from a family of random maps: "
    "per output type a coordinate-dependent mask, a dense mixing of all input channels and tensor components with a different weight per output component, a bias and a tanh. The inner model's own equivariance defect "
    "must exceed 0.1 (otherwise trivial). Averaging active: wrapper(g.x) == g.wrapper(x) for every g in G (groups above 8 elements: a generating set plus 3 drawn elements; relative 1e-4) with the declared output types; averaging off: wrapper(x) is bit-identical to inner(x). "
    "mode 'climate': (lon,lat) extents 2..6 unequal, past/future steps 1..3, dynamic types from subsets of {(0,0),(0,1),(1,0)} with 1..3 channels in any storage order, 0..2 constant fields per type, a random inner 1-D map. "
    "Climate1D(F.x) == F.Climate1D(x) for the equator flip F; from1d(to1d(x)) == x exactly when past == future (identifier values; with constants the dynamic part is restored); to1d(L.x) == R.to1d(x) for the "
    "longitude flip L and the 1-D reflection R, exactly; get_1d_signature agrees (per type) with what to1d produces. Non-trivial: inner model measurably non-equivariant and g != e; distinct key = all parameters."
)
ASSUMPTIONS = [
    "the operators handed to GroupAverage form a group (closure computed by the reference); the property is stated for groups closed under product",
    "Climate1D supports the dynamic types (0,0), (0,1), (1,0) and (pseudo)scalar constant fields only (library assertions)",
]
CONFIG = {
    "quick": {"examples": 400, "shards": 16, "shrink_s": 40, "time_budget_s": 270},
    "thorough": {"examples": 6000, "shards": 16, "shrink_s": 200, "time_budget_s": 1500},
}
GROUPS = ["B", "SO", "C2", "C4", "Z2", "triv", "perm"]
NO_PERM = {"C2", "Z2", "triv"}


def draw_case(data, tier):
    mode = data.draw(st.sampled_from(["average", "average", "climate"]), label="mode")
    if mode == "average":
        d = data.draw(st.sampled_from([2, 2, 3]), label="d")
        # |G|^2 inner evaluations per case: the two 24/48-element groups of d=3 are left to the thorough tier
        G = data.draw(st.sampled_from(GROUPS if (d == 2 or tier == "thorough") else ["C2", "C4", "Z2", "triv", "perm"]), label="G")
        if data.draw(st.booleans(), label="nonsquare"):
            shape = list(gen.draw_shape(data, d, 2, 4 if d == 2 else 3, classes=("distinct", "free"))[0])
        else:
            n = data.draw(st.integers(2, 4 if d == 2 else 3), label="N")
            shape = [n] * d
        kmax = 2 if d == 2 else 1
        return {"mode": mode, "d": d, "G": G, "shape": shape, "torus": list(gen.draw_torus(data, d)),
                "in_sig": gen.draw_signature(data, d, kmax=kmax, min_types=1, max_types=3, cmax=2),
                "out_sig": gen.draw_signature(data, d, kmax=kmax, min_types=1, max_types=3, cmax=2),
                "always_average": data.draw(st.booleans(), label="always_average"), "inference": data.draw(st.booleans(), label="inference"),
                "mseed": data.draw(st.integers(0, 99999), label="mseed"), "xseed": data.draw(st.integers(0, 99999), label="xseed")}
    lon = data.draw(st.integers(2, 6), label="lon")
    lat = data.draw(st.integers(2, 6).filter(lambda v: v != lon), label="lat")
    past = data.draw(st.integers(1, 3), label="past")
    future = data.draw(st.integers(1, 3), label="future")
    types = data.draw(st.permutations([(0, 0), (0, 1), (1, 0)]), label="types")
    n = data.draw(st.integers(1, 3), label="ntypes")
    dyn = [[list(t), data.draw(st.integers(1, 3), label="c")] for t in types[:n]]
    ncon = data.draw(st.integers(0, 2), label="n_const_types")
    # constant fields are laid out as (pseudo)scalars by to1d; vector constants are rejected by an assertion (not generated)
    ctypes = data.draw(st.permutations([(0, 0), (0, 1)]), label="ctypes")[:ncon]
    con = [[list(t), data.draw(st.integers(1, 2), label="cc")] for t in ctypes if list(t) in [s[0] for s in dyn]]
    return {"mode": mode, "lon": lon, "lat": lat, "past": past, "future": future, "dyn": dyn, "con": con,
            "mseed": data.draw(st.integers(0, 99999), label="mseed"), "xseed": data.draw(st.integers(0, 99999), label="xseed")}


class _Inner:
    """A random non-equivariant map on multi-images (plain callable with the MultiImageModule calling convention)."""

    def __init__(self, d, in_sig, out_sig, seed):
        self.d, self.in_sig, self.out_sig = d, in_sig, out_sig
        rng = np.random.default_rng(seed)
        n_in = sum(c * d ** t[0] for t, c in in_sig)
        self.W = {t: rng.standard_normal((c * d ** t[0], n_in)) for t, c in out_sig}
        self.b = {t: rng.standard_normal((c * d ** t[0],)) for t, c in out_sig}
        self.freq = {t: rng.uniform(0.5, 2.0, size=(d,)) for t, _ in out_sig}
        self.phase = {t: rng.uniform(0, 3.0) for t, _ in out_sig}

    def __call__(self, x, aux_data=None):
        d = self.d
        sp = x.get_spatial_dims()
        feats = []
        for t, c in self.in_sig:
            a = x[t]
            feats.append(a.reshape((c,) + tuple(sp) + (-1,)).transpose((0, d + 1) + tuple(range(1, d + 1))).reshape((-1,) + tuple(sp)))
        F = jnp.concatenate(feats, axis=0)  # (n_in, spatial)
        grids = jnp.meshgrid(*[jnp.arange(n, dtype=jnp.float32) for n in sp], indexing="ij")
        out = {}
        for t, c in self.out_sig:
            mask = jnp.sin(sum(f * g for f, g in zip(self.freq[t], grids)) + self.phase[t]) + 1.5
            y = jnp.tensordot(jnp.asarray(self.W[t], dtype=jnp.float32), F, axes=1) + jnp.asarray(self.b[t], dtype=jnp.float32).reshape((-1,) + (1,) * d)
            y = jnp.tanh(y) * mask
            y = y.reshape((c, d ** t[0]) + tuple(sp))
            y = jnp.moveaxis(y, 1, -1).reshape((c,) + tuple(sp) + (d,) * t[0])
            out[t] = y
        return geom.MultiImage(out, d, x.is_torus), aux_data


def _average_case(case):
    d, shape = case["d"], tuple(case["shape"])
    G = ref.named_group(case["G"], d)
    in_sig, out_sig = gen.sig_tuple(case["in_sig"]), gen.sig_tuple(case["out_sig"])
    active = case["always_average"] or case["inference"]
    labels = ["mode_average", f"d{d}", "G_" + case["G"], "active" if active else "off", "square" if len(set(shape)) == 1 else "nonsquare",
              "pseudo" if any(t[1] for t, _ in in_sig + out_sig) else "nopseudo"]
    key = ["avg", d, case["G"], shape, case["torus"], case["in_sig"], case["out_sig"], case["always_average"], case["inference"]]
    tor = tuple(bool(t) for t in case["torus"])
    inner = _Inner(d, in_sig, out_sig, case["mseed"])
    wrapper = models.GroupAverage(inner, [np.asarray(g) for g in G], always_average=case["always_average"], inference=case["inference"])
    rng = np.random.default_rng(case["xseed"])
    X = {t: rng.standard_normal((c,) + shape + (d,) * t[0]).astype(np.float32) for t, c in in_sig}

    def mk(Xd, tor_):
        return geom.MultiImage({t: jnp.asarray(a) for t, a in Xd.items()}, d, tor_)

    def run(fn, Xd, tor_):
        out = fn(mk(Xd, tor_), None)[0]
        return {t: np.asarray(v) for t, v in out.items()}, out

    base, base_mi = run(wrapper, X, tor)
    inner_out, _ = run(inner, X, tor)
    if [t for t, _ in base_mi.get_signature()] and set(base) != {t for t, _ in out_sig}:
        return result(viol("C10/average/types", f"{sorted(base)} vs {out_sig}"), True, key, labels)
    if not active:
        for t in inner_out:
            if not exact_equal(base[t], inner_out[t]):
                return result(viol("C10/average/off-differs-from-inner", f"block {t}: {first_diff(base[t], inner_out[t])}"), True, key, labels)
        return result(None, len(G) > 1, key, labels)
    # how non-equivariant is the inner model itself?
    inner_defect = 0.0
    evals = 0
    elems = G if len(G) <= 8 else ref.generators(G, d) + [G[i] for i in np.random.default_rng(case["xseed"]).choice(len(G), 3, replace=False)]
    for g in elems:
        evals += 1
        gX = {t: ref.action(d, a, t[1], g, lead=1) for t, a in X.items()}
        tor_g = ref.transport(tor, g)
        lhs, lhs_mi = run(wrapper, gX, tor_g)
        il, _ = run(inner, gX, tor_g)
        for t in base:
            rhs = ref.action(d, base[t], t[1], g, lead=1)
            df = rel_defect(lhs[t], rhs)
            inner_defect = max(inner_defect, rel_defect(il[t], ref.action(d, inner_out[t], t[1], g, lead=1)))
            if df > 1e-4:
                return result(viol("C10/average/equivariance", f"G={case['G']} g={np.asarray(g).tolist()} block {t}: relative defect {df:.3g} ({case['in_sig']}->{case['out_sig']}, shape {shape})"), True, key, labels, evals)
        if tuple(lhs_mi.is_torus) != tor_g:
            return result(viol("C10/average/flags", f"flags {lhs_mi.is_torus} expected {tor_g}"), True, key, labels, evals)
    # definition of the wrapper (anchor: "mean over g of g^T . model(g . x)"), evaluated independently for small groups
    if len(G) <= 8:
        acc = {t: 0.0 for t in base}
        for g in G:
            il, _ = run(inner, {t: ref.action(d, a, t[1], g, lead=1) for t, a in X.items()}, ref.transport(tor, g))
            for t in base:
                acc[t] = acc[t] + ref.action(d, il[t].astype(np.float64), t[1], np.asarray(g).T, lead=1)
        for t in base:
            df = rel_defect(base[t], acc[t] / len(G))
            if df > 1e-4:
                return result(viol("C10/average/definition", f"G={case['G']} (|G|={len(G)}): wrapper output differs from (1/|G|) sum_g g^-1.inner(g.x) on block {t} by {df:.3g}"), True, key, labels, evals)
        labels.append("definition_checked")
    labels.append("inner_nonequivariant" if inner_defect > 0.1 else "inner_nearly_equivariant")
    return result(None, inner_defect > 0.1 and len(G) > 1, key, labels, evals)


class _Inner1D:
    def __init__(self, in_sig, out_sig, seed):
        self.in_sig, self.out_sig = in_sig, out_sig
        rng = np.random.default_rng(seed)
        n_in = sum(c for _, c in in_sig)
        self.W = {t: rng.standard_normal((c, n_in)) / np.sqrt(n_in) for t, c in out_sig}
        self.ph = {t: rng.uniform(0, 3) for t, _ in out_sig}

    def __call__(self, x, aux_data=None):
        F = jnp.concatenate([x[t] for t, _ in self.in_sig], axis=0)  # (n_in, lon)
        n = F.shape[-1]
        pos = jnp.sin(jnp.arange(n) * 0.9)[None]
        out = {t: jnp.tanh(jnp.asarray(self.W[t], dtype=jnp.float32) @ F + self.ph[t]) * (1.5 + pos) for t, _ in self.out_sig}
        return geom.MultiImage(out, 1, x.is_torus), aux_data


def _climate_case(case):
    lon, lat, past, future = case["lon"], case["lat"], case["past"], case["future"]
    dyn = [((int(t[0]), int(t[1])), int(c)) for t, c in case["dyn"]]
    con = {(int(t[0]), int(t[1])): int(c) for t, c in case["con"]}
    d = 2
    labels = ["mode_climate", f"past{past}", f"future{future}", "const" if con else "noconst", "order_sorted" if [t for t, _ in dyn] == sorted(t for t, _ in dyn) else "order_unsorted",
              "has_vector" if any(t == (1, 0) for t, _ in dyn) else "no_vector"]
    key = ["climate", lon, lat, past, future, case["dyn"], case["con"]]
    tor = (True, False)
    out_keys = tuple((t, c * future) for t, c in dyn)
    in_keys_2d = tuple((t, c * past + con.get(t, 0)) for t, c in dyn)
    start = 1
    blocks = {}
    for t, c in in_keys_2d:
        a = gen.ident_array((c, lon, lat) + (d,) * t[0], start=start)
        start += a.size
        blocks[t] = a
    x = geom.MultiImage({t: jnp.asarray(a, dtype=jnp.float32) for t, a in blocks.items()}, d, tor)
    sig1d_in = models.Climate1D.get_1d_signature(in_keys_2d, lat)
    sig1d_out = models.Climate1D.get_1d_signature(out_keys, lat)
    inner = _Inner1D(tuple(sig1d_in), tuple(sig1d_out), case["mseed"])
    cl = models.Climate1D(inner, out_keys, past, future, (lon, lat), con, tor)

    # ---- signature of the 1-D layout
    one = cl.to1d(x)
    got_sig = {t: c for t, c in one.get_signature()}
    if got_sig != {t: c for t, c in sig1d_in}:
        return result(viol("C10/climate/1d-signature", f"to1d produces {got_sig}, get_1d_signature says {dict(sig1d_in)}"), True, key, labels)
    if one.D != 1:
        return result(viol("C10/climate/1d-D", f"D={one.D}"), True, key, labels)

    # ---- lossless round trip (needs the same number of steps on both sides)
    if past == future:
        cl_rt = models.Climate1D(inner, out_keys, past, future, (lon, lat), {}, tor)
        dyn_only = geom.MultiImage({t: jnp.asarray(blocks[t][: c * past], dtype=jnp.float32) for t, c in dyn}, d, tor)
        back = cl_rt.from1d(cl_rt.to1d(dyn_only))
        labels.append("roundtrip")
        for t, c in dyn:
            if t not in back or not exact_equal(np.asarray(back[t]), blocks[t][: c * past]):
                why = "missing" if t not in back else first_diff(np.asarray(back[t]), blocks[t][: c * past])
                return result(viol("C10/climate/roundtrip", f"from1d(to1d(x)) != x for block {t} (storage order {[s for s, _ in dyn]}): {why}"), True, key, labels)
    # ---- constants survive unchanged in the 1-D layout: every constant value appears exactly once
    if con:
        vals_1d = np.concatenate([np.asarray(v).reshape(-1) for v in one.values()])
        for t, cc in con.items():
            cvals = blocks[t][-cc:].reshape(-1)
            if not np.all(np.isin(np.abs(cvals), np.abs(vals_1d))):
                return result(viol("C10/climate/constants-lost", f"constant fields of type {t} are not all present in the 1-D layout"), True, key, labels)
    if one.size() != x.size():
        return result(viol("C10/climate/element-count", f"{one.size()} != {x.size()}"), True, key, labels)

    # ---- longitude flip becomes the 1-D reflection
    Lflip = np.array([[-1, 0], [0, 1]])
    R = np.array([[-1]])
    lx = geom.MultiImage({t: jnp.asarray(ref.action(d, a, t[1], Lflip, lead=1), dtype=jnp.float32) for t, a in blocks.items()}, d, tor)
    lhs = cl.to1d(lx)
    for t, v in one.items():
        rhs = ref.action(1, np.asarray(v), t[1], R, lead=1)
        if t not in lhs or not exact_equal(np.asarray(lhs[t]), rhs):
            return result(viol("C10/climate/longitude-flip", f"to1d(L.x) != R.to1d(x) for 1-D block {t}"), True, key, labels)

    # ---- equator-flip equivariance of the wrapper with an arbitrary inner model
    rng = np.random.default_rng(case["xseed"])
    Xf = {t: rng.standard_normal(a.shape).astype(np.float32) for t, a in blocks.items()}
    Fflip = np.array([[1, 0], [0, -1]])

    def run(Xd):
        out = cl(geom.MultiImage({t: jnp.asarray(a) for t, a in Xd.items()}, d, tor))[0]
        return {t: np.asarray(v) for t, v in out.items()}

    base = run(Xf)
    if set(base) != {t for t, _ in out_keys}:
        return result(viol("C10/climate/output-types", f"{sorted(base)} requested {out_keys}"), True, key, labels)
    for t, c in out_keys:
        if base[t].shape != (c, lon, lat) + (d,) * t[0]:
            return result(viol("C10/climate/output-shape", f"block {t} shape {base[t].shape}"), True, key, labels)
    lhs = run({t: ref.action(d, a, t[1], Fflip, lead=1) for t, a in Xf.items()})
    inner_only = cl.from1d(inner(cl.to1d(geom.MultiImage({t: jnp.asarray(a) for t, a in Xf.items()}, d, tor)))[0])
    inner_flip = cl.from1d(inner(cl.to1d(geom.MultiImage({t: jnp.asarray(ref.action(d, a, t[1], Fflip, lead=1)) for t, a in Xf.items()}, d, tor)))[0])
    inner_defect = max(rel_defect(np.asarray(inner_flip[t]), ref.action(d, np.asarray(inner_only[t]), t[1], Fflip, lead=1)) for t in base)
    for t in base:
        df = rel_defect(lhs[t], ref.action(d, base[t], t[1], Fflip, lead=1))
        if df > 1e-4:
            return result(viol("C10/climate/equator-flip", f"block {t}: relative defect {df:.3g} (dyn {case['dyn']}, const {case['con']}, past {past}, future {future})"), True, key, labels)
    labels.append("inner_nonequivariant" if inner_defect > 0.1 else "inner_nearly_equivariant")
    return result(None, inner_defect > 0.1, key, labels, evals=4)


def run_case(case):
    return _average_case(case) if case["mode"] == "average" else _climate_case(case)
