"""C12 — multi-image arithmetic pairs blocks by type, whatever their storage history."""
import numpy as np
from hypothesis import strategies as st

import jax
import jax.numpy as jnp
import ginjax.geometric as geom

from gv import gen
from gv.common import HarnessError, exact_equal, first_diff, result, viol

PID = "C12"
TECHNIQUE = "model-based stateful testing: Hypothesis draws construction histories and arithmetic programs over a pool of MultiImages; a dict-of-arrays model is compared block by block (by type) after every step; exact integer arithmetic"
RULE = (
    "A case draws a type set (1-4 types, channel counts 1..3, with a forced class in which two blocks have equal element counts), d in {1,2,3}, a "
    "possibly non-square shape, 1-2 leading axes, and a pool of 2-3 operands over that type set, each built by a drawn history: insertion order of "
    "the types, construction method (dict constructor / append one by one / concat of two halves / from_vector on a template), and a chain of round "
    "trips (copy, jax.jit identity, jax.vmap identity, tree_flatten/unflatten). A program of <= 10 steps applies add, sub, scalar multiply, division by a power "
    "of two, further round trips, re-orderings and in-place mutations (append onto an existing block, __setitem__) to pool entries (results re-enter the pool); after every step each block of the result must equal "
    "the model's block of the same type exactly. == must be True for equal models in any order and False after perturbing one entry; operands with a "
    "different type set, D or torus flags must be rejected by + and - and unequal under ==. Non-trivial: a binary operation whose operands' storage "
    "orders differ; distinct key = (type set, orders, histories, program)."
)
ASSUMPTIONS = [
    "integer values small enough for exact float32 arithmetic (asserted)",
    "multi-type MultiImages need >= 1 leading axis (append rejects otherwise), so 0 leading axes are only generated for single-type operands",
]
CONFIG = {
    "quick": {"examples": 960, "shards": 16, "shrink_s": 40, "time_budget_s": 240},
    "thorough": {"examples": 110000, "shards": 16, "shrink_s": 200, "time_budget_s": 1500},
}
ROUNDTRIPS = ["copy", "jit", "vmap", "flatten"]


def draw_case(data, tier):
    d = data.draw(st.sampled_from([1, 2, 2, 3]), label="d")
    shape, _ = gen.draw_shape(data, d, 1, 3, classes=("cubic", "distinct", "free"))
    torus = gen.draw_torus(data, d)
    eqsize = data.draw(st.booleans(), label="equal_size_class")
    if eqsize and d > 1:
        # two blocks with the same element count: d scalar channels vs 1 vector channel (and optionally more)
        sig = [[[0, data.draw(st.integers(0, 1))], d], [[1, data.draw(st.integers(0, 1))], 1]]
        extra = gen.draw_signature(data, d, kmax=2, min_types=1, max_types=2, cmax=3)
        for t, c in extra:
            if t not in [s[0] for s in sig]:
                sig.append([t, c])
        sig = [sig[i] for i in data.draw(st.permutations(list(range(len(sig)))), label="sigorder")]
    else:
        sig = gen.draw_signature(data, d, kmax=2, min_types=data.draw(st.sampled_from([1, 2, 2, 2]), label="min_types"), max_types=4, cmax=3)
    nlead = data.draw(st.integers(1, 2), label="nlead")
    batch = data.draw(st.sampled_from([2, 5]), label="batch") if nlead == 2 else None
    nops = data.draw(st.integers(2, 3), label="n_operands")
    operands = []
    for _ in range(nops):
        order = list(data.draw(st.permutations(list(range(len(sig)))), label="order"))
        if operands and data.draw(st.booleans(), label="reverse_of_first"):
            order = operands[0]["order"][::-1]
        method = data.draw(st.sampled_from(["dict", "append", "concat", "from_vector"]), label="method")
        nrt = data.draw(st.integers(0, 2), label="n_roundtrips")
        rts = [data.draw(st.sampled_from(ROUNDTRIPS if nlead == 2 else [r for r in ROUNDTRIPS if r != "vmap"]), label="rt") for _ in range(nrt)]
        operands.append({"order": order, "method": method, "roundtrips": rts, "seed": data.draw(st.integers(0, 9999), label="seed"),
                         "split": data.draw(st.integers(0, len(sig)), label="split")})
    nsteps = data.draw(st.integers(1, 6 if tier == "quick" else 10), label="nsteps")
    prog = []
    npool = nops
    # symbolic model: channel counts per type of every pool entry (in-place growth changes them; + and - need equal shapes)
    sym = [[c for _, c in sig] for _ in range(nops)]
    for step_no in range(nsteps):
        op = data.draw(st.sampled_from(["add", "sub", "add", "sub", "mul", "div", "roundtrip", "reorder", "append_inplace", "setitem_inplace"]), label="op")
        i = data.draw(st.integers(0, npool - 1), label="i")
        if step_no == 0:  # the first step always combines the two independently built operands
            prog.append({"op": data.draw(st.sampled_from(["add", "sub"]), label="first_op"), "i": 0, "j": 1})
            sym.append(list(sym[0]))
            npool += 1
            continue
        if op in ("append_inplace", "setitem_inplace"):
            ti = data.draw(st.integers(0, len(sig) - 1), label="type_index")
            grow = data.draw(st.integers(1, 2), label="grow") if op == "append_inplace" else 0
            sandwich = data.draw(st.booleans(), label="use_mutate_use")
            if sandwich:  # use the object, mutate it in place, use it again (stale per-object caches show here)
                prog.append({"op": data.draw(st.sampled_from(["mul", "div"]), label="before"), "i": i, "s": 2})
                sym.append(list(sym[i]))
                npool += 1
            prog.append({"op": op, "i": i, "type_index": ti, "grow": grow, "seed": data.draw(st.integers(0, 9999), label="mseed")})
            sym[i] = list(sym[i])
            sym[i][ti] += grow
            if sandwich:
                prog.append({"op": data.draw(st.sampled_from(["mul", "div"]), label="after"), "i": i, "s": -2})
                sym.append(list(sym[i]))
                npool += 1
            continue  # the mutation itself adds no pool entry
        if op in ("add", "sub"):
            partners = [j for j in range(npool) if sym[j] == sym[i]]
            prog.append({"op": op, "i": i, "j": data.draw(st.sampled_from(partners), label="j")})
            sym.append(list(sym[i]))
            npool += 1
            continue
        sym.append(list(sym[i]))
        if op in ("add", "sub"):
            prog.append({"op": op, "i": i, "j": data.draw(st.integers(0, npool - 1), label="j")})
        elif op == "mul":
            prog.append({"op": op, "i": i, "s": data.draw(st.sampled_from([-2, -1, 0, 2, 3]), label="s")})
        elif op == "div":
            prog.append({"op": op, "i": i, "s": data.draw(st.sampled_from([1, 2, 4, -2]), label="s")})
        elif op == "roundtrip":
            prog.append({"op": op, "i": i, "kind": data.draw(st.sampled_from(ROUNDTRIPS if nlead == 2 else [r for r in ROUNDTRIPS if r != "vmap"]), label="kind")})
        else:
            prog.append({"op": op, "i": i, "order": list(data.draw(st.permutations(list(range(len(sig)))), label="neworder"))})
        npool += 1
    reject = data.draw(st.sampled_from(["types", "D", "torus", "none"]), label="reject")
    # storage dtypes: all float32 (usual), or one block stored as int32 / float16 next to float32 blocks with half-integer values
    mixed = data.draw(st.sampled_from([None, None, None, "int32", "float16"]), label="mixed_dtype")
    return {"d": d, "shape": list(shape), "torus": list(torus), "sig": sig, "nlead": nlead, "batch": batch,
            "operands": operands, "prog": prog, "reject": reject, "mixed_dtype": mixed,
            "odd_block": data.draw(st.integers(0, len(sig) - 1), label="odd_dtype_block")}


_SHARED_JIT = jax.jit(lambda m: m)  # one jitted identity for the whole process (compilation cache shared between cases)


def _roundtrip(mi, kind):
    if kind == "copy":
        return mi.copy()
    if kind == "jit":
        return _SHARED_JIT(mi)
    if kind == "vmap":
        return jax.vmap(lambda m: m)(mi)
    if kind == "flatten":
        leaves, treedef = jax.tree_util.tree_flatten(mi)
        return jax.tree_util.tree_unflatten(treedef, leaves)
    raise HarnessError(kind)


_DTYPES = {}


def _build(d, torus, model, order_types, method, split, template_order):
    """Build a MultiImage holding `model` (dict type->array) with the given insertion order and method."""
    arr = lambda t: jnp.asarray(model[t], dtype=getattr(jnp, _DTYPES.get(t, "float32")))
    if method == "dict":
        return geom.MultiImage({t: arr(t) for t in order_types}, d, torus)
    if method == "append":
        mi = geom.MultiImage({}, d, torus)
        for t in order_types:
            mi.append(t[0], t[1], arr(t))
        return mi
    if method == "concat":
        a = geom.MultiImage({t: arr(t) for t in order_types[:split]}, d, torus)
        b = geom.MultiImage({t: arr(t) for t in order_types[split:]}, d, torus)
        return a.concat(b)
    if method == "from_vector":
        template = geom.MultiImage({t: jnp.zeros(model[t].shape, dtype=jnp.float32) for t in order_types}, d, torus)
        vec = jnp.concatenate([arr(t).reshape(-1).astype(jnp.float32) for t in order_types])
        return geom.MultiImage.from_vector(vec, template)
    raise HarnessError(method)


def _compare(mi, model, what):
    keys = list(mi.keys())
    if set(keys) != set(model.keys()) or len(keys) != len(model):
        return viol("C12/result-types", f"{what}: result types {keys} != {sorted(model.keys())}")
    for t, exp in model.items():
        got = np.asarray(mi[t])
        if not exact_equal(got, exp):
            return viol(f"C12/{what.split(':')[0]}", f"{what}: block {t}: {first_diff(got, exp)}; storage order of result {keys}")
    return None


def run_case(case):
    d, shape, torus = case["d"], tuple(case["shape"]), tuple(bool(t) for t in case["torus"])
    sig = [((int(t[0]), int(t[1])), int(c)) for t, c in case["sig"]]
    types = [t for t, _ in sig]
    nlead = case["nlead"]
    lead = (lambda c: (case["batch"], c) if nlead == 2 else (c,))
    sizes = {t: int(np.prod(lead(c) + shape)) * d ** t[0] for t, c in sig}
    labels = [f"d{d}", f"types{len(sig)}", f"nlead{nlead}", "equal_size_blocks" if len(set(sizes.values())) < len(sizes) else "distinct_size_blocks"]
    key = [d, shape, torus, case["sig"], nlead, case["operands"], case["prog"]]

    pool, models, orders = [], [], []
    _DTYPES.clear()
    mixed = case.get("mixed_dtype")
    if mixed and len(types) > 1:
        _DTYPES[types[case.get("odd_block", 0) % len(types)]] = mixed
        labels.append("mixed_dtype_" + mixed)
    for oi, od in enumerate(case["operands"]):
        rng = np.random.default_rng(od["seed"])
        model = {t: rng.integers(-4, 5, size=lead(c) + shape + (d,) * t[0]).astype(np.int64) for t, c in sig}
        if _DTYPES:
            # the float32 blocks carry half-integers (exact in float32 and float16, destroyed by a cast to an integer dtype)
            model = {t: (a if _DTYPES.get(t) == "int32" else a + 0.5) for t, a in model.items()}
        order_types = [types[i] for i in od["order"]]
        mi = _build(d, torus, model, order_types, od["method"], od["split"], None)
        labels.append("method_" + od["method"])
        for rt in od["roundtrips"]:
            mi = _roundtrip(mi, rt)
            labels.append("rt_" + rt)
        v = _compare(mi, model, f"construction:{od['method']}+{od['roundtrips']}")
        if v:
            return result(v, True, key, labels)
        if mi.D != d or tuple(mi.is_torus) != torus:
            return result(viol("C12/construction-metadata", f"D={mi.D} torus={mi.is_torus}"), True, key, labels)
        pool.append(mi)
        models.append(model)
    nontrivial = False
    evals = 0
    for si, step in enumerate(case["prog"]):
        op = step["op"]
        a, ma = pool[step["i"]], models[step["i"]]
        evals += 1
        if op in ("append_inplace", "setitem_inplace"):
            # in-place mutation of an operand that may already have been used in arithmetic
            t = types[step["type_index"]]
            rngm = np.random.default_rng(step["seed"])
            cur = ma[t]
            if op == "append_inplace":
                shp = list(cur.shape)
                shp[nlead - 1] = step["grow"]
                extra = rngm.integers(-4, 5, size=shp).astype(np.int64)
                a.append(t[0], t[1], jnp.asarray(extra, dtype=jnp.float32), axis=nlead - 1)
                new = np.concatenate([cur, extra], axis=nlead - 1)
            else:
                new = rngm.integers(-4, 5, size=cur.shape).astype(np.int64)
                a[t] = jnp.asarray(new, dtype=jnp.float32)
            upd = dict(ma)
            upd[t] = new
            models[step["i"]] = upd
            labels.append(op)
            v = _compare(a, models[step["i"]], f"{op}:step {si}")
            if v:
                return result(v, nontrivial, key, labels, evals)
            continue
        if op in ("add", "sub"):
            b, mb = pool[step["j"]], models[step["j"]]
            differ = list(a.keys()) != list(b.keys())
            if differ:
                nontrivial = True
                labels.append("orders_differ")
            out = a + b if op == "add" else a - b
            mo = {t: (ma[t] + mb[t] if op == "add" else ma[t] - mb[t]) for t in ma}
            what = f"{op}:step {si} operand orders {list(a.keys())} / {list(b.keys())}"
        elif op == "mul":
            out = a * step["s"]
            mo = {t: ma[t] * step["s"] for t in ma}
            what = f"mul:step {si}"
        elif op == "div":
            out = a / step["s"]
            mo = {t: ma[t] / step["s"] for t in ma}
            what = f"div:step {si}"
        elif op == "roundtrip":
            out = _roundtrip(a, step["kind"])
            mo = ma
            labels.append("rt_" + step["kind"])
            what = f"roundtrip:{step['kind']} step {si}"
        else:
            out = geom.MultiImage({types[i]: a[types[i]] for i in step["order"]}, d, torus)
            mo = ma
            what = f"reorder:step {si}"
        for t in mo:
            if np.max(np.abs(mo[t])) >= 2**22:
                raise HarnessError("magnitude")
        v = _compare(out, mo, what)
        if v:
            return result(v, nontrivial, key, labels, evals)
        if out.D != d or tuple(out.is_torus) != torus:
            return result(viol("C12/result-metadata", f"{what}: D={out.D} torus={out.is_torus}"), nontrivial, key, labels, evals)
        pool.append(out)
        models.append(mo)

    # equality: by type, order-insensitive, sensitive to one perturbed entry
    for i in range(len(pool)):
        a, ma = pool[i], models[i]
        rev = geom.MultiImage({t: a[t] for t in reversed(list(a.keys()))}, d, torus)
        if not (a == rev) or not (rev == a):
            return result(viol("C12/eq-order", f"a == (a with reversed storage order) is False; orders {list(a.keys())}"), nontrivial, key, labels, evals)
        t0 = types[i % len(types)]
        pert = {t: np.array(ma[t], dtype=np.float64) for t in ma}
        pert[t0].reshape(-1)[-1] += 1.0
        b = geom.MultiImage({t: jnp.asarray(pert[t], dtype=jnp.float32) for t in reversed(list(a.keys()))}, d, torus)
        if a == b or b == a:
            return result(viol("C12/eq-insensitive", f"== is True although block {t0} differs by 1 in one entry"), nontrivial, key, labels, evals)
        for j in range(i + 1, len(pool)):
            same = all(np.array_equal(models[i][t], models[j][t]) for t in types)
            if same and not (pool[i] == pool[j]):
                return result(viol("C12/eq-order", f"models equal but == False (orders {list(pool[i].keys())} / {list(pool[j].keys())})"), nontrivial, key, labels, evals)

    # rejection of incompatible operands
    a, ma = pool[0], models[0]
    rk = case["reject"]
    other = None
    if rk == "types":
        cand = [t for t in [(0, 0), (0, 1), (1, 0), (1, 1), (2, 0)] if t not in types and (d > 1 or t[0] == 0)]
        if cand:
            t_new = cand[0]
            t_old = types[0]
            blocks = {t: a[t] for t in types[1:]}
            # replace one type by another with the same number of elements where possible
            c_old = dict(sig)[t_old]
            c_new = max(1, (c_old * d ** t_old[0]) // d ** t_new[0])
            blocks[t_new] = jnp.ones(lead(c_new) + shape + (d,) * t_new[0], dtype=jnp.float32)
            other = geom.MultiImage(blocks, d, torus)
    elif rk == "torus":
        other = geom.MultiImage({t: a[t] for t in types}, d, tuple(not x for x in torus))
    elif rk == "D" and d == 2 and all(t[0] == 0 for t in types):
        # scalar blocks can be re-read as a 1-d multi image with one more leading axis
        other = geom.MultiImage({t: a[t] for t in types}, 1, (True,))
    if other is not None:
        labels.append("reject_" + rk)
        for name, f in (("add", lambda: a + other), ("sub", lambda: a - other), ("radd", lambda: other + a)):
            try:
                out = f()
            except (AssertionError, KeyError, TypeError, ValueError):
                continue
            return result(viol(f"C12/not-rejected/{rk}", f"{name} of operands with different {rk} returned {list(out.keys())} instead of raising"), True, key, labels, evals)
        if a == other or other == a:
            return result(viol(f"C12/eq-incompatible/{rk}", f"== is True for operands with different {rk}"), True, key, labels, evals)
    return result(None, nontrivial, key, labels, max(evals, 1))
