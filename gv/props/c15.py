"""C15 — time-series windowing yields exactly the causal (past, future) pairs."""
import numpy as np
from hypothesis import strategies as st

import jax.numpy as jnp
import ginjax.geometric as geom
import ginjax.data as gdata

from gv import gen
from gv.common import HarnessError, exact_equal, first_diff, result, viol
from gv.ref import core as ref

PID = "C15"
TECHNIQUE = "property-based testing with position-encoding integer inputs against a pure-Python window reference (exact)"
RULE = (
    "Hypothesis draws (p, f, dt, s, downsample) and T = s+(p+f-1)*dt+1+extra so that at least one window exists, a dynamic signature (1-3 types, 1..3 "
    "channels, storage order drawn), a constant signature (0-2 types incl. a type absent from the dynamic part), trajectory batch 1..3, d=2 with small "
    "non-square extents (even when down-sampling). Every value encodes (trajectory, type, channel, time, pixel, component), so each misplaced frame is "
    "detected exactly. times_series_to_multi_images, batch_time_series and time_series_idxs are compared with a pure-Python reference: sample count, "
    "input times s+w+j*dt, target times s+w+(p+j)*dt, channel-major/time-minor layout, constants appended unchanged after the dynamic channels of inputs "
    "only, trajectory-major stacking, average-pool down-sampling. Non-trivial: dt>1 or s>0 or constants present or downsample; distinct key = all parameters."
)
ASSUMPTIONS = ["values stay below 2^24 so float32 is exact (asserted)", "d=2 only for the image part (windowing is independent of d)"]
CONFIG = {
    "quick": {"examples": 1280, "shards": 16, "shrink_s": 40, "time_budget_s": 240},
    "thorough": {"examples": 24000, "shards": 16, "shrink_s": 200, "time_budget_s": 1500},
}
TYPES = [(0, 0), (1, 0), (0, 1), (1, 1), (2, 0)]


def draw_case(data, tier):
    p = data.draw(st.integers(1, 3), label="p")
    f = data.draw(st.integers(1, 3), label="f")
    dt = data.draw(st.integers(1, 3), label="dt")
    s = data.draw(st.integers(0, 3), label="s")
    extra = data.draw(st.integers(0, 4), label="extra") if data.draw(st.integers(0, 7), label="long_T") else data.draw(st.integers(5, 24), label="extra_long")
    T = s + (p + f - 1) * dt + 1 + extra
    down = data.draw(st.sampled_from([0, 0, 0, 1, 1, 2, 3]), label="downsample")
    if down:
        shape = [2**down * data.draw(st.integers(1, 2)), 2**down * data.draw(st.integers(1, 2))]
    else:
        shape = [data.draw(st.integers(1, 3)), data.draw(st.integers(1, 3))]
    dyn = gen.draw_signature(data, 2, kmax=1, min_types=1, max_types=3, cmax=3)
    ncon = data.draw(st.integers(0, 2), label="n_const_types")
    con_types = data.draw(st.permutations(TYPES[:4]), label="const_types")[:ncon]
    con = [[list(t), data.draw(st.integers(1, 2), label="cc")] for t in con_types]
    return {"T": T, "p": p, "f": f, "dt": dt, "s": s, "down": down, "shape": shape, "dyn": dyn, "con": con,
            "batch": data.draw(st.integers(1, 3), label="batch"), "mode": data.draw(st.sampled_from(["single", "batch", "batch"]), label="mode")}


def _code(traj, tcode, c, t):
    return ((traj * 8 + tcode) * 4 + c) * 32 + t


def run_case(case):
    d = 2
    T, p, f, dt, s, down = case["T"], case["p"], case["f"], case["dt"], case["s"], case["down"]
    shape = tuple(case["shape"])
    dyn = [((int(t[0]), int(t[1])), int(c)) for t, c in case["dyn"]]
    con = [((int(t[0]), int(t[1])), int(c)) for t, c in case["con"]]
    B = case["batch"] if case["mode"] == "batch" else 1
    labels = ["mode_" + case["mode"], f"dt{dt}", "skip" if s else "noskip", "const%d" % len(con), "down%d" % down, f"p{p}", f"f{f}"]
    if any(t not in [x for x, _ in dyn] for t, _ in con):
        labels.append("const_only_type")
    key = [T, p, f, dt, s, down, shape, case["dyn"], case["con"], B, case["mode"]]
    nontrivial = dt > 1 or s > 0 or bool(con) or down > 0
    W = T - s - (p + f - 1) * dt
    if W < 1:
        raise HarnessError("generator produced no window")

    # ---- time_series_idxs itself
    in_idx, out_idx = gdata.time_series_idxs(p, f, dt, T - s)
    exp_in = np.array([[w + j * dt for j in range(p)] for w in range(W)])
    exp_out = np.array([[w + (p + j) * dt for j in range(f)] for w in range(W)])
    if not exact_equal(np.asarray(in_idx), exp_in) or not exact_equal(np.asarray(out_idx), exp_out):
        return result(viol("C15/time_series_idxs", f"p={p} f={f} dt={dt} total={T-s}: in {np.asarray(in_idx).tolist()} out {np.asarray(out_idx).tolist()}"), nontrivial, key, labels)
    for w in range(W):
        if set(exp_in[w]) & set(exp_out[w]):
            raise HarnessError("reference windows overlap")

    K = int(np.prod(shape)) * d * d
    def pix(k):
        return gen.ident_array(shape + (d,) * k, start=0)

    tcode = {t: i for i, t in enumerate(TYPES)}
    dyn_blocks, con_blocks = {}, {}
    for t, c in dyn:
        arr = np.zeros((B, c * T) + shape + (d,) * t[0], dtype=np.int64)
        for b in range(B):
            for ch in range(c):
                for tt in range(T):
                    arr[b, ch * T + tt] = _code(b, tcode[t], ch, tt) * K + pix(t[0])
        dyn_blocks[t] = arr
    for t, c in con:
        arr = np.zeros((B, c) + shape + (d,) * t[0], dtype=np.int64)
        for b in range(B):
            for ch in range(c):
                arr[b, ch] = -(_code(b, tcode[t], ch, 31) * K + pix(t[0]))
        con_blocks[t] = arr
    if max(np.max(np.abs(a)) for a in list(dyn_blocks.values()) + list(con_blocks.values())) >= 2**24:
        raise HarnessError("encoding exceeds exact range")

    # ---- reference
    def pool(a, lead):
        out = a.astype(np.float64)
        for _ in range(down):
            ssum, div = ref.average_pool(d, out, 2, lead=lead)
            out = ssum / div
        return out

    exp_x, exp_y = {}, {}
    for t, c in dyn:
        xs = np.zeros((B * W, c * p) + shape + (d,) * t[0], dtype=np.int64)
        ys = np.zeros((B * W, c * f) + shape + (d,) * t[0], dtype=np.int64)
        for b in range(B):
            for w in range(W):
                for ch in range(c):
                    for j in range(p):
                        xs[b * W + w, ch * p + j] = dyn_blocks[t][b, ch * T + (s + w + j * dt)]
                    for j in range(f):
                        ys[b * W + w, ch * f + j] = dyn_blocks[t][b, ch * T + (s + w + (p + j) * dt)]
        exp_x[t] = xs
        exp_y[t] = ys
    for t, c in con:
        rep = np.zeros((B * W, c) + shape + (d,) * t[0], dtype=np.int64)
        for b in range(B):
            for w in range(W):
                rep[b * W + w] = con_blocks[t][b]
        exp_x[t] = np.concatenate([exp_x[t], rep], axis=1) if t in exp_x else rep
    exp_x = {t: pool(a, 2) for t, a in exp_x.items()}
    exp_y = {t: pool(a, 2) for t, a in exp_y.items()}

    # ---- library
    tor = (True, False)
    if case["mode"] == "batch":
        dmi = geom.MultiImage({t: jnp.asarray(a, dtype=jnp.float32) for t, a in dyn_blocks.items()}, d, tor)
        cmi = geom.MultiImage({t: jnp.asarray(a, dtype=jnp.float32) for t, a in con_blocks.items()}, d, tor)
        X, Y = gdata.batch_time_series(dmi, cmi, T, p, f, s, dt, down)
    else:
        dmi = geom.MultiImage({t: jnp.asarray(a[0], dtype=jnp.float32) for t, a in dyn_blocks.items()}, d, tor)
        cmi = geom.MultiImage({t: jnp.asarray(a[0], dtype=jnp.float32) for t, a in con_blocks.items()}, d, tor)
        X, Y = gdata.times_series_to_multi_images(dmi, cmi, T, p, f, s, dt, down)
    for name, got, exp in (("input", X, exp_x), ("target", Y, exp_y)):
        if set(got.keys()) != set(exp.keys()):
            return result(viol(f"C15/{name}/types", f"{list(got.keys())} expected {list(exp.keys())}"), nontrivial, key, labels)
        if got.D != d or tuple(got.is_torus) != tor:
            return result(viol(f"C15/{name}/metadata", f"D={got.D} torus={got.is_torus}"), nontrivial, key, labels)
        for t in exp:
            g = np.asarray(got[t])
            if g.shape[0] != B * W:
                return result(viol(f"C15/{name}/sample-count", f"{g.shape[0]} samples, expected {B}*{W} (T={T} s={s} p={p} f={f} dt={dt})"), nontrivial, key, labels)
            if not exact_equal(g, exp[t]):
                return result(viol(f"C15/{name}/placement", f"type {t} T={T} s={s} p={p} f={f} dt={dt} down={down} mode={case['mode']}: {first_diff(g, exp[t])}"), nontrivial, key, labels)
    return result(None, nontrivial, key, labels, evals=B * W)
