"""C06 — the equivariant linear layer is equivariant for every parameter value."""
import itertools as it

import numpy as np
from hypothesis import strategies as st

import jax
import jax.numpy as jnp
import equinox as eqx
import ginjax.geometric as geom

from gv import convgen, gen, layergen, netgen
from gv.common import FLOAT_TOL, exact_equal, first_diff, rel_defect, result, viol
from gv.ref import core as ref

PID = "C06"
TECHNIQUE = "property-based metamorphic testing: layer_{g.opts}(g.x) == g.layer_opts(x) for every g of the bank's group with the reference action, weights/biases replaced by drawn integers; complete one-hot input bases through vmap (bilinearity) or random integers: exact; bias modes: float inputs with a stated tolerance; all cyclic shifts on tori"
RULE = (
    "Hypothesis draws d in {2,3}, G in {B_d, rotation subgroup, C2^d}, a bank (side 3 or the side-2 up-sampling bank, scale='one'), input/target signatures over k<=2 (d=2) / k<=1 (d=3) with pairwise "
    "distinct channel counts in drawn order, one of the five bias settings, symmetric unit-stride options (TORUS/SAME/VALID/int/symmetric explicit padding, per-axis rhs and lhs dilation, per-axis torus "
    "flags, non-square images). Weights and biases are replaced by drawn integers in [-3,3] (3 independent weight draws for the bias-free part). For every g in G the layer rebuilt with options "
    "transported along g and the same parameters is applied to g.x (reference action per block) and compared block by block, with each block's declared (k,p), with g.(layer(x)): exactly for the "
    "bias-free part (complete input basis stacked through jax.vmap when it has <= 160 elements, else random integers), within 2e-3 relative (robust re-draw on 3 fresh inputs) with bias on random "
    "float inputs. On toroidal options without image dilation all cyclic shifts are checked. Both sides must have the same block set. Non-trivial: g != e, a non-scalar type on either side, non-zero output."
)
ASSUMPTIONS = [
    "a block missing from the output is a C11 matter; C06 compares the blocks present and requires both sides to have the same block set",
    "Schwartz-Zippel: the bias-free defect is bilinear in (weights, input); with the input basis complete and 3 weight draws from [-3,3]^m a surviving violation has probability <= 7^-3 per configuration",
]
CONFIG = {
    "quick": {"examples": 200, "shards": 16, "shrink_s": 40, "time_budget_s": 270},
    "thorough": {"examples": 8000, "shards": 16, "shrink_s": 200, "time_budget_s": 1500},
}


is_risky = layergen.is_risky  # image dilation > 1: isolated child process (XLA compiler aborts on some of them)


def draw_case(data, tier):
    case = layergen.draw_layer_case(data, symmetric_only=True, unit_stride=True)
    case["mode"] = data.draw(st.sampled_from(["basis", "rand"]), label="mode")
    return case


def _rebuild(case, layer, opts2):
    layer2, _, _ = layergen.build_layer(case, opts2)
    layer2 = eqx.tree_at(lambda m: m.weights, layer2, layer.weights)
    if layer.bias:
        layer2 = eqx.tree_at(lambda m: m.bias, layer2, layer.bias)
    return layer2


def _act(d, X, g):
    return {t: ref.action(d, a, t[1], g, lead=a.ndim - d - t[0]) for t, a in X.items()}


def run_case(case):
    d, opts = case["d"], case["opts"]
    mode_b = layergen.BIAS_MODES[case["bias"]]
    G = ref.named_group(case["G"], d)
    sig_in = gen.sig_tuple(case["in_sig"])
    shape = tuple(opts["shape"])
    labels = ["channels_equal" if len({c for _, c in case["in_sig"]}) == 1 and len({c for _, c in case["out_sig"]}) == 1 and len(case["out_sig"]) > 1 else "channels_mixed",
              f"d{d}", "G_" + case["G"], f"M{case['M']}", f"bias_{mode_b}", "mode_" + case["mode"]] + convgen.option_labels(opts, d)
    key = [d, case["G"], case["M"], case["in_sig"], case["out_sig"], case["bias"], opts, case["mode"]]
    has_tensor = any(t[0] > 0 or t[1] == 1 for t, _ in sig_in + gen.sig_tuple(case["out_sig"]))
    tor = tuple(bool(b) for b in opts["is_torus"])
    exact = mode_b is False
    evals = 0
    nonzero = False
    wdraws = 3 if exact else 1
    for wd in range(wdraws):
        c2 = dict(case, wseed=case["wseed"] + 7919 * wd)
        layer, W, Bv = layergen.build_layer(c2)
        nbasis = sum(c * int(np.prod(shape)) * d ** t[0] for t, c in sig_in)
        if exact and case["mode"] == "basis" and nbasis <= 160:
            # complete one-hot basis, one input per batch entry
            X = {t: np.zeros((nbasis, c) + shape + (d,) * t[0], dtype=np.int64) for t, c in sig_in}
            off = 0
            for t, c in sig_in:
                n = c * int(np.prod(shape)) * d ** t[0]
                X[t][off:off + n] = gen.basis((c,) + shape + (d,) * t[0])
                off += n
            batched = True
            labels.append("basis_complete")
        else:
            X = layergen.make_input(case, case["xseed"] + wd, "int" if exact else "float")
            batched = False

        def run(layer_, Xd, tor_):
            mi = geom.MultiImage({t: jnp.asarray(a, dtype=jnp.float32) for t, a in Xd.items()}, d, tor_)
            out = jax.vmap(layer_)(mi) if batched else layer_(mi)
            return {t: np.asarray(v) for t, v in out.items()}, tuple(out.is_torus)

        base, base_tor = run(layer, X, tor)
        nonzero = nonzero or any(np.any(v != 0) for v in base.values())
        for gi, g in enumerate(G):
            evals += 1
            opts2 = convgen.transport_opts(opts, g, d)
            layer2 = _rebuild(c2, layer, opts2)
            tor2 = ref.transport(tor, g)

            def defect(Xd):
                b, _ = run(layer, Xd, tor) if Xd is not X else (base, None)
                lhs, lhs_tor = run(layer2, _act(d, Xd, g), tor2)
                if set(lhs.keys()) != set(b.keys()):
                    return ("types", f"block sets differ: {sorted(lhs.keys())} vs {sorted(b.keys())}")
                for t in b:
                    rhs = ref.action(d, b[t], t[1], g, lead=b[t].ndim - d - t[0])
                    if exact:
                        if not exact_equal(lhs[t], rhs):
                            return ("exact", f"block {t}: {first_diff(lhs[t], rhs)}")
                    elif rel_defect(lhs[t], rhs) > FLOAT_TOL:
                        return ("float", f"block {t}: relative defect {rel_defect(lhs[t], rhs):.3g}")
                if lhs_tor != tor2:
                    return ("flags", f"output flags {lhs_tor} expected {tor2}")
                return None

            bad = defect(X)
            if bad is not None and not exact and bad[0] == "float":
                # robust re-draw: report only if it also fails on three nearby fresh inputs
                fresh = [layergen.make_input(case, case["xseed"] + 100 + j, "float") for j in range(3)]
                if not all(defect(f) is not None for f in fresh):
                    labels.append("redraw_rescued")
                    bad = None
            if bad is not None:
                kind = "bias" if not exact else "linear"
                return result(viol(f"C06/equivariance/{kind}", f"g={np.asarray(g).tolist()} det={ref.det(g)} use_bias={mode_b!r} {case['in_sig']}->{case['out_sig']} {opts}: {bad[1]}", g=gi),
                              True, key, labels, evals)
        # translations
        eff_torus = opts["padding"] == "TORUS" or (opts["padding"] is None and any(tor))
        if eff_torus and opts["lhs"] is None and any(tor):
            if "translations" not in labels:
                labels.append("translations")
            ranges = [range(n) if t_ else range(1) for n, t_ in zip(shape, tor)]
            shifts = [s for s in it.product(*ranges) if any(s)]
            for s in shifts[:: max(1, len(shifts) // 12)]:
                evals += 1
                lead = 2 if batched else 1
                lhs, _ = run(layer, {t: ref.roll(a, s, d, lead=lead) for t, a in X.items()}, tor)
                for t in base:
                    rhs = ref.roll(base[t], s, d, lead=lead)
                    ok = exact_equal(lhs[t], rhs) if exact else rel_defect(lhs[t], rhs) < FLOAT_TOL
                    if not ok:
                        return result(viol("C06/translation", f"shift {s} block {t} use_bias={mode_b!r} {opts}"), True, key, labels, evals)
    nontrivial = has_tensor and nonzero and len(G) > 1
    return result(None, nontrivial, key, labels, evals)
