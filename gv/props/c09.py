"""C09 — training cannot break equivariance."""
import numpy as np
from hypothesis import strategies as st

import jax
import jax.numpy as jnp
import jax.random as random
import equinox as eqx
import optax
import ginjax.geometric as geom
import ginjax.ml as ml
import ginjax.ml.training  # noqa: F401  (train_step is not re-exported)
import ginjax.models as models  # noqa: F401

from gv import gen, netgen
from gv.common import rel_defect, result, viol
from gv.props import c07
from gv.ref import core as ref

PID = "C09"
TECHNIQUE = "property-based testing over training histories: a generated equivariant architecture is trained by the library's own ml.train / train_step (generated data, batch schedule, optimiser incl. weight decay, loss, step count), then the C07 metamorphic equivariance oracle is applied to the returned model and every invariant filter bank must be a common positive rescaling of the original"
RULE = (
    "Hypothesis draws (3 in 4 cases) a small C07 architecture (ConvBlock / ResNet / UNet / DilResNet, signatures incl. pseudo-types, normalisation on/off, bias modes), a data set of 4..8 random samples, a batch size dividing it, "
    "an optimiser in {sgd(lr), adam(lr), adamw(lr, weight_decay in [0.01,0.3])} with lr in [1e-2,1e-1], a loss in {smse, normalized smse}, and 1..3 epochs through ml.train with EpochStop or a drawn number of direct "
    "train_step calls; in 1 of 4 cases the model is instead a GroupAverage around a trainable conventional ResNet (top level, or nested behind an equivariant ConvBlock stem) whose averaging is on either through "
    "always_average or through eqx.nn.inference_mode, trained by ml.train. The parameters are first moved away from initialisation (+0.2 N(0,1)). After the history: (a) the returned model passes the C07 oracle (generating set of G + 3 drawn elements, relative 2e-3, "
    "robust re-draw, translations on tori); (b) every invariant-filter leaf equals s * its original with one common s>0 across the model (relative 1e-5; s=1 for sgd/adam); (c) some trainable leaf moved by >1e-3 "
    "(otherwise the history is trivial). Non-trivial: >=2 optimiser steps and max parameter change >1e-2; distinct key = (architecture, optimiser, batch schedule, steps, loss)."
)
ASSUMPTIONS = [
    "single CPU device: pmap runs over one device (the device axis has length 1)",
    "same float tolerance and degenerate-evaluation exclusion as C07",
]
CLEAR_CACHES_EVERY = 3
CONFIG = {
    "quick": {"examples": 32, "shards": 16, "shrink_s": 90, "time_budget_s": 280},
    "thorough": {"examples": 432, "shards": 16, "shrink_s": 240, "time_budget_s": 1500},
}


class _Composite(models.MultiImageModule):
    """An equivariant stem followed by a group-averaged conventional network (equivariant only while averaging is on)."""

    stem: models.ConvBlock
    avg: models.GroupAverage

    def __init__(self, stem, avg):
        self.stem = stem
        self.avg = avg

    def __call__(self, x, aux_data=None):
        h, _ = self.stem(x)
        return self.avg(h, aux_data)


def _draw_average_cfg(data, tier):
    d = 2
    sig = gen.draw_signature(data, d, kmax=1, min_types=1, max_types=2, cmax=2)
    out = gen.draw_signature(data, d, kmax=1, min_types=1, max_types=2, cmax=2)
    n = data.draw(st.sampled_from([4, 6]), label="n_samples")
    return {
        "cls": "GroupAverage", "no_translation": True, "d": d, "G": data.draw(st.sampled_from(["B", "SO", "C2", "Z2"]), label="G"), "in_sig": sig, "out_sig": out, "N": 4,
        "torus": data.draw(st.booleans(), label="torus"), "nested": data.draw(st.booleans(), label="nested"),
        "always_average": data.draw(st.booleans(), label="always_average"), "group_norm": False, "bias": "auto", "num_downsamples": 0, "seed": data.draw(st.integers(0, 9999), label="seed"),
        "n_samples": n, "batch_size": data.draw(st.sampled_from([1, 2]), label="batch_size"), "opt": data.draw(st.sampled_from(["sgd", "adam", "adamw"]), label="opt"),
        "lr": data.draw(st.sampled_from([0.01, 0.03]), label="lr"), "wd": 0.1, "loss": "smse", "epochs": data.draw(st.integers(1, 2), label="epochs"), "driver": "train",
        "pseed": data.draw(st.integers(0, 99999), label="pseed"), "xseed": data.draw(st.integers(0, 99999), label="xseed"), "gs": [gen.draw_g(data, d, "g") for _ in range(3)],
    }


def _build_average_model(cfg):
    d = cfg["d"]
    in_sig, out_sig = gen.sig_tuple(cfg["in_sig"]), gen.sig_tuple(cfg["out_sig"])
    k1, k2 = random.split(random.PRNGKey(cfg["seed"]))
    G = netgen.group_ops(d, cfg["G"])
    mid = in_sig
    inner = models.ResNet(d, mid, out_sig, depth=2, num_blocks=1, num_conv=1, equivariant=False, kernel_size=3, use_group_norm=False, key=k1)
    avg = models.GroupAverage(inner, G, always_average=cfg["always_average"], inference=False)
    if cfg["nested"]:
        bank = netgen.bank(d, cfg["G"] if cfg["G"] != "Z2" else "C2", (3,), (0, 1, 2))
        stem = models.ConvBlock(d, in_sig, mid, "auto", "gelu", True, bank, key=k2)
        model = _Composite(stem, avg)
    else:
        model = avg
    # averaging "at inference time": switch every inference flag on, which is what makes the model equivariant
    return eqx.nn.inference_mode(model)


def draw_case(data, tier):
    if data.draw(st.integers(0, 3), label="family") == 0:
        return _draw_average_cfg(data, tier)
    cfg = netgen.draw_model_cfg(data, tier, equivariant=True, classes=["ConvBlock", "ResNet", "ResNet", "UNet", "DilResNet"])
    cfg["depth"] = min(cfg["depth"], 2)
    if cfg["cls"] in ("ConvBlock", "ResNet") and data.draw(st.integers(0, 3), label="wide") == 0:
        # a wide layer (8-9 channels per type): anything that switches strategy with the layer width is reached
        cfg["depth"] = 8
        cfg["wide"] = True
        if cfg["cls"] == "ConvBlock":
            for m in cfg["out_sig"]:
                m[1] = 8 + (m[1] % 2)
            if cfg["preact"]:
                cfg["in_sig"] = [list(map(lambda v: list(v) if isinstance(v, list) else v, m)) for m in cfg["out_sig"]]
    for m in cfg.get("mid_sig", []):
        m[1] = cfg["depth"]  # explicit mid_keys carry `depth` channels
    cfg["num_blocks"] = 1
    if cfg["cls"] == "UNet":
        cfg["num_downsamples"] = 1
        cfg["N"] = 4 if cfg["d"] == 2 else 2
        cfg.pop("shape", None)
    n = data.draw(st.sampled_from([4, 6, 8]), label="n_samples")
    bs = data.draw(st.sampled_from([b for b in (1, 2, 3, 4) if n % b == 0]), label="batch_size")
    cfg.update({
        "n_samples": n, "batch_size": bs, "opt": data.draw(st.sampled_from(["sgd", "adam", "adamw", "adamw"]), label="opt"),
        "lr": data.draw(st.sampled_from([0.01, 0.03, 0.1]), label="lr"), "wd": data.draw(st.sampled_from([0.01, 0.1, 0.3]), label="wd"),
        "loss": data.draw(st.sampled_from(["smse", "normalized"]), label="loss"), "epochs": data.draw(st.integers(1, 3), label="epochs"),
        "driver": data.draw(st.sampled_from(["train", "train", "train_step"]), label="driver"), "pseed": data.draw(st.integers(0, 99999), label="pseed"),
        "xseed": data.draw(st.integers(0, 99999), label="xseed"), "gs": [gen.draw_g(data, cfg["d"], "g") for _ in range(3)],
    })
    return cfg


def _make_loss(kind):
    def map_and_loss(model, x, y, aux_data):
        pred, aux_data = jax.vmap(model, in_axes=(0, None), out_axes=(0, None))(x, aux_data)
        loss = ml.smse_loss(pred, y) if kind == "smse" else ml.normalized_smse_loss(pred, y)
        return loss, aux_data

    return map_and_loss


def run_case(cfg):
    d = cfg["d"]
    labels = ["cls_" + cfg["cls"], f"d{d}", "G_" + cfg["G"], "opt_" + cfg["opt"], "loss_" + cfg["loss"], "driver_" + cfg["driver"], "norm" if cfg["group_norm"] else "nonorm", f"bias_{cfg['bias']}", "wide" if cfg.get("wide") else "narrow"]
    key = [netgen.cfg_key({k: v for k, v in cfg.items() if k not in ("pseed", "xseed", "gs")})]
    if cfg["cls"] == "GroupAverage":
        labels += ["nested" if cfg["nested"] else "toplevel", "always_average" if cfg["always_average"] else "inference_flag"]
        reach = list(gen.sig_tuple(cfg["out_sig"]))
        model0 = netgen.perturb(_build_average_model(cfg), cfg["pseed"], 0.1)
    else:
        reach = netgen.simulate_types(cfg)
        if reach is None or not reach:
            return result(None, False, key, labels + ["no_reachable_output"])
        model0 = netgen.perturb(netgen.build_model(cfg), cfg["pseed"], 0.2)
    banks0 = netgen.bank_leaves(model0)
    n = cfg["n_samples"]
    shp = netgen.model_shape(cfg)
    rng = np.random.default_rng(cfg["xseed"])
    tor = (bool(cfg["torus"]),) * d
    X = geom.MultiImage({t: jnp.asarray(rng.standard_normal((n, c) + shp + (d,) * t[0]), dtype=jnp.float32) for t, c in gen.sig_tuple(cfg["in_sig"])}, d, tor)
    Y = geom.MultiImage({t: jnp.asarray(rng.standard_normal((n, c) + shp + (d,) * t[0]), dtype=jnp.float32) for t, c in reach}, d, tor)
    opt = {"sgd": lambda: optax.sgd(cfg["lr"]), "adam": lambda: optax.adam(cfg["lr"]), "adamw": lambda: optax.adamw(cfg["lr"], weight_decay=cfg["wd"])}[cfg["opt"]]()
    loss_fn = _make_loss(cfg["loss"])
    dev = [jax.devices()[0]]
    steps = 0
    if cfg["driver"] == "train":
        model, _, train_loss, _ = ml.train(X, Y, loss_fn, model0, random.PRNGKey(cfg["xseed"]), ml.EpochStop(cfg["epochs"]), cfg["batch_size"], opt, devices=dev)
        steps = cfg["epochs"] * (n // cfg["batch_size"])
    else:
        model = model0
        opt_state = opt.init(eqx.filter(model, eqx.is_array))
        Xb, Yb = ml.get_batches((X, Y), cfg["batch_size"], random.PRNGKey(cfg["xseed"]), dev)
        for xb, yb in list(zip(Xb, Yb))[: cfg["epochs"] + 1]:
            model, opt_state, loss_value, _ = ml.training.train_step(loss_fn, model, opt, opt_state, xb, yb, None)
            steps += 1
    moved = netgen.max_param_delta(model0, model)
    if not np.isfinite(moved):
        return result(None, False, key, labels + ["diverged_excluded"])
    # (b) the filter banks: only a common positive rescaling
    banks1 = netgen.bank_leaves(model)
    scales = []
    for (p0, a0), (p1, a1) in zip(banks0, banks1):
        if p0 != p1 or a0.shape != a1.shape:
            return result(viol("C09/bank-structure", f"bank leaf {p0} vs {p1}"), True, key, labels, steps)
        nz = np.abs(a0) > 1e-6
        if not nz.any():
            continue
        s = float(np.median(a1[nz] / a0[nz]))
        if rel_defect(a1, s * a0) > 1e-5 or not s > 0:
            return result(viol("C09/bank-changed", f"after {steps} {cfg['opt']} steps the invariant filter leaf {p0} is not a positive multiple of the original (best scale {s:.6g}, defect {rel_defect(a1, s * a0):.3g})"), True, key, labels, steps)
        scales.append(s)
    if scales and (max(scales) - min(scales)) > 1e-5 * max(scales):
        return result(viol("C09/bank-rescaled-unevenly", f"filter leaves rescaled by different factors {min(scales):.6g}..{max(scales):.6g}"), True, key, labels, steps)
    if scales and cfg["opt"] in ("sgd", "adam") and abs(scales[0] - 1.0) > 1e-6:
        return result(viol("C09/bank-changed", f"{cfg['opt']} changed the filter bank by the factor {scales[0]:.8g}"), True, key, labels, steps)
    if scales and abs(scales[0] - 1.0) > 1e-6:
        labels.append("bank_rescaled")
    # (a) equivariance after training
    v, labs, evals, base = c07.check_equivariance(cfg, model, prop="C09")
    labels += labs
    nontrivial = steps >= 2 and moved > 1e-2 and "reflection_applied" in labels
    if moved <= 1e-3:
        labels.append("parameters_did_not_move")
    return result(v, nontrivial, key, labels, evals + steps)
