"""C01 — convolution commutes with the symmetry group (rotations, reflections, shifts)."""
import itertools as it

import numpy as np
from hypothesis import strategies as st

import jax.numpy as jnp
import ginjax.geometric as geom

from gv import convgen, gen
from gv.common import assert_exact_bound, exact_equal, first_diff, rel_defect, result, viol
from gv.ref import core as ref

PID = "C01"
TECHNIQUE = "property-based metamorphic testing: conv(g.A, g.C) == g.conv(A, C) for every g in B_d with the reference group action, on complete one-hot bases (bilinearity) or random integers, exact comparison; cyclic-shift commutation on tori"
RULE = (
    "Hypothesis draws d in {2,3}, a symmetric unit-stride option set (TORUS / SAME / VALID / int / symmetric explicit padding, per-axis torus "
    "flags, per-axis rhs and lhs dilation, odd/even/non-square filters, non-square images), image type (k,p) and filter type (k',p') with "
    "k+k'<=3 (d=2) or <=2 (d=3). For every g in B_d the option set is transported along the axis permutation of g and "
    "lib.convolve(g.A, g.C) is compared exactly with g.(lib.convolve(A, C)) acting with type (k+k', p+p'), g. being the independent "
    "reference action. A and C are the complete one-hot bases (image basis on the batch axis, filter basis on the out-channel axis) or random "
    "integers above a size bound. Also: GeometricImage.convolve_with bookkeeping (k, parity, flags) and covariance with the library's own action, "
    "equivariance with library-generated invariant filters, and all cyclic shifts on toroidal axes. Non-trivial: output not identically zero; "
    "distinct key = (options, types, mode)."
)
ASSUMPTIONS = [
    "cases with image dilation > 1 run in an isolated child process because the XLA CPU compiler aborts (CHECK failure) on a small fraction of dilated convolutions; aborted cases are excluded and listed under coverage.process_aborts_in_native_code",
    "float32 arithmetic exact below 2^24 (asserted)",
    "reference action is independent of the library (gv.ref.core.action, self-tested)",
    "stride is 1 (the property is stated at unit stride)",
]
CONFIG = {
    "quick": {"examples": 480, "shards": 16, "shrink_s": 40, "time_budget_s": 240},
    "thorough": {"examples": 15000, "shards": 16, "shrink_s": 200, "time_budget_s": 1500},
}

_FILTER_CACHE = {}


def _inv_filters(d, M, k, p):
    key = (d, M, k, p)
    if key not in _FILTER_CACHE:
        ops = [np.asarray(g) for g in gen.ops(d)]
        fl = geom.get_unique_invariant_filters(M, k, p, d, ops, scale="one")
        _FILTER_CACHE[key] = [np.asarray(f.data, dtype=np.float64) for f in fl]
    return _FILTER_CACHE[key]


def is_risky(case):
    """Image dilation > 1: run in the isolated child (the XLA CPU compiler aborts on some dilated convolutions)."""
    lhs = case["opts"]["lhs"]
    return lhs is not None and max(lhs) > 1


def draw_case(data, tier):
    d = data.draw(st.sampled_from([2, 2, 3]), label="d")
    mode = data.draw(st.sampled_from(["basis", "basis", "rand", "invariant"]), label="mode")
    if mode == "invariant":
        opts = convgen.draw_conv_options(data, d, symmetric_only=True, unit_stride=True, max_extra=2,
                                         pad_kinds=["TORUS", "SAME", "VALID", "int", "explicit_sym", "None"])
        opts["fshape"] = [3] * d
        # re-derive a valid image shape for the 3^d filter: keep it simple, extents >= effective filter extent
        r = opts["rhs"]
        rl = r if isinstance(r, list) else [r] * d
        opts["shape"] = [max(n, 2 * rr + 1) for n, rr in zip(opts["shape"], rl)]
    else:
        opts = convgen.draw_conv_options(data, d, symmetric_only=True, unit_stride=True, max_extra=2, max_ext=5 if d == 2 else 4)
    kmax = 3 if d == 2 else 2
    ktot = data.draw(st.sampled_from(list(range(kmax + 1)) + [1, 2]), label="ktot")
    k = data.draw(st.integers(0, ktot), label="k")
    case = {"d": d, "opts": opts, "k": k, "p": data.draw(st.integers(0, 1), label="p"), "kf": ktot - k,
            "pf": data.draw(st.integers(0, 1), label="pf"), "mode": mode, "seed": data.draw(st.integers(0, 2**20), label="seed")}
    if mode == "invariant" and d == 3:
        case["kf"] = min(case["kf"], 1)
    if mode != "basis":
        case["B"] = data.draw(st.integers(1, 2), label="B")
        case["C"] = data.draw(st.integers(1, 2), label="C")
        case["O"] = data.draw(st.integers(1, 2), label="O")
    return case


def _lib_conv(d, A, F, kw):
    return np.asarray(geom.convolve(d, jnp.asarray(A, dtype=jnp.float32), jnp.asarray(F, dtype=jnp.float32), **kw))


def run_case(case):
    d, opts, k, p, kf, pf, mode = case["d"], case["opts"], case["k"], case["p"], case["kf"], case["pf"], case["mode"]
    sp, fs = tuple(opts["shape"]), tuple(opts["fshape"])
    ops = gen.ops(d)
    labels = [f"d{d}", f"k{k}p{p}", f"kf{kf}pf{pf}", "mode_" + mode, "parity_odd" if (p + pf) % 2 else "parity_even"] + convgen.option_labels(opts, d)
    key = [d, opts, k, p, kf, pf, mode]
    rng = np.random.default_rng(case["seed"])
    exact = True
    if mode == "basis":
        nA = int(np.prod(sp)) * d**k
        nF = int(np.prod(fs)) * d**kf
        if nA * nF > 3000:
            mode = "rand"
            labels.append("basis_too_large")
            case = dict(case, B=2, C=1, O=2)
        else:
            A = gen.basis(sp + (d,) * k).reshape((nA, 1) + sp + (d,) * k)
            F = gen.basis(fs + (d,) * kf).reshape((nF, 1) + fs + (d,) * kf)
    if mode == "rand":
        A = rng.integers(-3, 4, size=(case["B"], case["C"]) + sp + (d,) * k)
        F = rng.integers(-3, 4, size=(case["O"], case["C"]) + fs + (d,) * kf)
    if mode == "invariant":
        fl = _inv_filters(d, 3, kf, pf)
        if len(fl) == 0:
            return result(None, False, key, labels + ["no_invariant_filter"])
        A = rng.integers(-3, 4, size=(case["B"], 1) + sp + (d,) * k)
        F = np.stack(fl)[:, None]  # (n_filters, 1, 3.., tensor)
        exact = bool(np.all(F == np.round(F)))
        labels.append("invariant_exact" if exact else "invariant_float")
    kw = convgen.kwargs_for_lib(opts, d)
    base = _lib_conv(d, A, F, kw)
    assert_exact_bound(base)
    nontrivial = bool(np.any(base != 0))
    evals = 0
    for gi, g in enumerate(ops):
        evals += 1
        gA = ref.action(d, A, p, g, lead=2)
        if mode == "invariant":
            gF = F  # the filters are claimed invariant: the corollary is equivariance with the *same* filters
            o2 = convgen.transport_opts(opts, g, d)
            o2["fshape"] = list(fs)
        else:
            gF = ref.action(d, F, pf, g, lead=2)
            o2 = convgen.transport_opts(opts, g, d)
        lhs = _lib_conv(d, gA, gF, convgen.kwargs_for_lib(o2, d))
        rhs = ref.action(d, base, p + pf, g, lead=2)
        ok = exact_equal(lhs, rhs) if exact else rel_defect(lhs, rhs) < 1e-5
        if not ok:
            kind = "invariant-filter-equivariance" if mode == "invariant" else "covariance"
            return result(viol(f"C01/{kind}", f"g#{gi}={g.tolist()} det={ref.det(g)} {opts} image(k,p)=({k},{p}) filter(k,p)=({kf},{pf}): {first_diff(lhs, rhs)}", g=gi),
                          nontrivial, key, labels, evals)

    # translations on toroidal axes (no image dilation, toroidal padding)
    tor = convgen.lib_torus(opts)
    tor_t = tor if isinstance(tor, tuple) else (tor,) * d
    eff_torus = opts["padding"] == "TORUS" or (opts["padding"] is None and any(tor_t))
    if eff_torus and opts["lhs"] is None and any(tor_t):
        labels.append("translations")
        ranges = [range(n) if t else range(1) for n, t in zip(sp, tor_t)]
        for t in it.product(*ranges):
            if not any(t):
                continue
            evals += 1
            lhs = _lib_conv(d, ref.roll(A, t, d, lead=2), F, kw)
            rhs = ref.roll(base, t, d, lead=2)
            ok = exact_equal(lhs, rhs) if exact else rel_defect(lhs, rhs) < 1e-5
            if not ok:
                return result(viol("C01/translation", f"shift {t} {opts}: {first_diff(lhs, rhs)}"), nontrivial, key, labels, evals)

    # class-level bookkeeping and covariance with the library's own action
    if mode != "invariant":
        img = geom.GeometricImage(jnp.asarray(A[0, 0], dtype=jnp.float32), p, d, tor_t)
        fil = geom.GeometricImage(jnp.asarray(F[0, 0], dtype=jnp.float32), pf, d, tor_t)
        kwc = dict(stride=kw["stride"], padding=kw["padding"], lhs_dilation=kw["lhs_dilation"], rhs_dilation=kw["rhs_dilation"])
        res = img.convolve_with(fil, **kwc)
        if (res.k, res.parity, res.D) != (k + kf, (p + pf) % 2, d):
            return result(viol("C01/convolve_with/type", f"(k,parity)=({res.k},{res.parity}) expected ({k+kf},{(p+pf)%2})"), nontrivial, key, labels, evals)
        if tuple(res.is_torus) != tuple(tor_t):
            return result(viol("C01/convolve_with/flags", f"is_torus {res.is_torus} != {tor_t}"), nontrivial, key, labels, evals)
        sub = range(len(ops)) if d == 2 else [int(x) for x in rng.choice(len(ops), 6, replace=False)]
        for gi in sub:
            g = ops[gi]
            evals += 1
            o2 = convgen.transport_opts(opts, g, d)
            kw2 = convgen.kwargs_for_lib(o2, d)
            gimg = img.times_group_element(np.asarray(g))
            gfil = fil.times_group_element(np.asarray(g))
            one = gimg.convolve_with(gfil, stride=kw2["stride"], padding=kw2["padding"], lhs_dilation=kw2["lhs_dilation"], rhs_dilation=kw2["rhs_dilation"])
            two = res.times_group_element(np.asarray(g))
            if not exact_equal(np.asarray(one.data), np.asarray(two.data)):
                return result(viol("C01/class-level-covariance", f"g#{gi} flags {tor_t}->{gimg.is_torus} {opts}: {first_diff(np.asarray(one.data), np.asarray(two.data))}", g=gi),
                              nontrivial, key, labels, evals)
            if (one.k, one.parity, tuple(one.is_torus)) != (two.k, two.parity, tuple(two.is_torus)):
                return result(viol("C01/class-level-metadata", f"g#{gi}: {(one.k, one.parity, one.is_torus)} vs {(two.k, two.parity, two.is_torus)}"), nontrivial, key, labels, evals)
    return result(None, nontrivial, key, labels, evals)
