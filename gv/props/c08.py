"""C08 — normalisation, nonlinearity and pooling blocks commute with the group action."""
import itertools as it

import numpy as np
from hypothesis import strategies as st

import jax
import jax.numpy as jnp
import jax.random as random
import equinox as eqx
import ginjax.geometric as geom
import ginjax.ml as ml

from gv import gen, netgen
from gv.common import FLOAT_TOL, HarnessError, exact_equal, first_diff, rel_defect, result, viol
from gv.ref import core as ref

PID = "C08"
TECHNIQUE = "property-based metamorphic testing: block(g.x) == g.block(x) for every g in B_d with the reference action, every learnable leaf replaced by N(0,1) draws, generic and structured inputs; stated float tolerance with robust re-draw; exact integers for average pooling / unpooling; max pooling additionally against a reference implementation with an asserted uniqueness margin"
RULE = (
    "Hypothesis draws a block out of {GroupNorm, LayerNorm, VectorNeuronNonlinear, MaxNormPool, geom.max_pool, average pooling (functional and MultiImage), GeometricImage.unpool}, d in {2,3}, "
    "every type the block accepts (norms: k<=1 incl. pseudo-scalars and pseudo-vectors; VN and pools: k<=2) in a drawn storage order, channels 1..6 with groups in divisors(channels), patch length in {2,3}, extents "
    "multiples of the patch, the default (non-zero) eps, every learnable leaf (scale, bias, vanilla_norm.weight/bias, mixing weights) replaced by leaf+N(0,1), an activation out of {relu,gelu,tanh}, and an input class "
    "out of generic N(0,1) / sparse / constant / zero (pooling: generic, re-drawn until the gap between the two largest norms of every patch exceeds 1e-3, or a planted near-tie whose two largest norms differ by a relative 2^-11; stored as float32, float16 or bfloat16). For every g in B_d: block(g.x) == g.block(x) per "
    "type with the declared (k,p) (relative 2e-3; average pool / unpool on integers exactly); pooling / unpooling commute with translations by multiples of the patch on tori; unpool then average_pool is the "
    "identity. Non-trivial: parameters away from initialisation, g != e, and the type is not (0,0) or the block is a pool; distinct key = all parameters."
)
ASSUMPTIONS = [
    "relative-defect threshold 2e-3: correct float32 implementations were observed at 1e-8..1e-5, structural violations with O(1) parameters at >= 1e-1",
    "a float failure is reported only if it persists on 3 nearby fresh inputs with identical configuration and parameters (ties / near-singular covariance are measure-zero carve-outs of the property)",
]
CONFIG = {
    "quick": {"examples": 800, "shards": 16, "shrink_s": 40, "time_budget_s": 270},
    "thorough": {"examples": 25000, "shards": 16, "shrink_s": 200, "time_budget_s": 1500},
}
BLOCKS = ["GroupNorm", "GroupNorm", "LayerNorm", "VN", "VN", "MaxNormPool", "max_pool", "average_pool", "mi_average_pool", "unpool"]
ACTS = {"relu": jax.nn.relu, "gelu": jax.nn.gelu, "tanh": jax.nn.tanh}


def draw_case(data, tier):
    block = data.draw(st.sampled_from(BLOCKS), label="block")
    d = data.draw(st.sampled_from([2, 2, 3]), label="d")
    patch = data.draw(st.sampled_from([2, 2, 3]), label="patch") if block in ("MaxNormPool", "max_pool", "average_pool", "mi_average_pool", "unpool") else 1
    if patch > 1:
        mult = data.draw(st.integers(1, 2 if d == 2 else 1), label="mult")
        if block == "unpool":
            shape = [data.draw(st.integers(1, 3 if d == 2 else 2), label="n") for _ in range(d)]
        else:
            shape = [patch * data.draw(st.integers(1, 3 if d == 2 else (2 if patch == 2 else 1)), label="n") for _ in range(d)]
    else:
        shape = list(gen.draw_shape(data, d, 2, 5 if d == 2 else 3, classes=("cubic", "distinct", "free"))[0])
    kmax = 1 if block in ("GroupNorm", "LayerNorm") else 2
    if d == 3 and kmax == 2 and block == "VN":
        kmax = 2
    if block in ("max_pool", "average_pool", "unpool"):
        k, p = gen.draw_type(data, d, kmax)
        sig = [[[k, p], 1]]
    else:
        sig = gen.draw_signature(data, d, kmax=kmax, min_types=1, max_types=3, cmax=3)
    groups = 1
    if block == "GroupNorm":
        groups = data.draw(st.sampled_from([1, 2, 3]), label="groups")
        for s in sig:
            s[1] = groups * data.draw(st.integers(1, 2), label="chan_mult")
    elif block == "LayerNorm":
        for s in sig:
            s[1] = data.draw(st.integers(1, 6), label="chan")
    if block in ("GroupNorm", "LayerNorm") and d == 2 and data.draw(st.integers(0, 11), label="many_samples") == 0:
        # more than 16384 samples per normalisation group (anything that subsamples or chunks the statistics shows here)
        shape = [32, 32]
        sig = [[[1, data.draw(st.integers(0, 1), label="p_big")], 16 * groups]]
    inp = "generic"
    pool_dtype = "float32"
    if block in ("MaxNormPool", "max_pool"):
        inp = data.draw(st.sampled_from(["generic", "generic", "near_tie"]), label="pool_input_class")
        pool_dtype = data.draw(st.sampled_from(["float32", "float32", "float16", "bfloat16"]), label="pool_dtype")
    if block in ("GroupNorm", "LayerNorm", "VN"):
        inp = data.draw(st.sampled_from(["generic", "generic", "generic", "sparse", "constant", "zero"]), label="input_class")
    return {"block": block, "d": d, "shape": shape, "sig": sig, "groups": groups, "patch": patch, "input": inp,
            "act": data.draw(st.sampled_from(sorted(ACTS)), label="act"), "pseed": data.draw(st.integers(0, 99999), label="pseed"),
            "xseed": data.draw(st.integers(0, 99999), label="xseed"), "use_norm": True, "pool_dtype": pool_dtype}


def _make_input(case, seed, kind):
    d, shape = case["d"], tuple(case["shape"])
    rng = np.random.default_rng(seed)
    X = {}
    for (k, p), c in gen.sig_tuple(case["sig"]):
        shp = (c,) + shape + (d,) * k
        if kind == "generic":
            a = rng.standard_normal(shp)
        elif kind == "sparse":
            a = np.zeros(shp)
            n = max(1, a.size // 8)
            idx = rng.choice(a.size, n, replace=False)
            a.reshape(-1)[idx] = rng.standard_normal(n)
        elif kind == "constant":
            a = np.ones(shp) * rng.standard_normal((c,) + (1,) * d + (d,) * k)
        elif kind == "near_tie":
            # small generic background; in the first patch of the first channel two pixels whose norms differ by a relative
            # 2^-11 (resolved by float32, not by half precision); the larger one comes LATER in storage order
            a = 0.05 * rng.standard_normal(shp)
            P = case["patch"]
            first = (0,) + (0,) * d
            last = (0,) + (P - 1,) * d
            if k == 0:  # |x| is exact in every dtype: a clear winner only
                a[first] = 1.0
                a[last] = 1.5
            else:
                a[first] = 0.0
                a[last] = 0.0
                a[first + (0,) * k] = 1.0
                a[last + (0,) * k] = 1.0
                a[last + (0,) * (k - 1) + (1,)] = 2.0**-5
        elif kind == "int":
            a = rng.integers(-4, 5, size=shp).astype(np.float64)
        else:
            a = np.zeros(shp)
        dt = case.get("pool_dtype", "float32")
        if dt == "float32":
            X[(k, p)] = a.astype(np.float32).astype(np.float64)
        else:  # values rounded to the storage dtype (so that the float64 reference sees exactly what the library sees)
            X[(k, p)] = np.asarray(jnp.asarray(a, dtype=getattr(jnp, dt)).astype(jnp.float32)).astype(np.float64)
    return X


def _build(case):
    d, name = case["d"], case["block"]
    sig = gen.sig_tuple(case["sig"])
    if name == "GroupNorm":
        blk = ml.GroupNorm(sig, d, case["groups"])
    elif name == "LayerNorm":
        blk = ml.LayerNorm(sig, d)
    elif name == "VN":
        blk = ml.VectorNeuronNonlinear(sig, d, ACTS[case["act"]], key=random.PRNGKey(case["pseed"]))
    elif name == "MaxNormPool":
        return ml.MaxNormPool(case["patch"], True)
    else:
        return None
    return netgen.perturb(blk, case["pseed"], 1.0)


def _apply(case, blk, X, tor):
    """Returns dict type -> np array."""
    d, name, patch = case["d"], case["block"], case["patch"]
    sdt = getattr(jnp, case.get("pool_dtype", "float32"))
    if name in ("GroupNorm", "LayerNorm", "VN", "MaxNormPool", "mi_average_pool"):
        mi = geom.MultiImage({t: jnp.asarray(a, dtype=sdt if name == "MaxNormPool" else jnp.float32) for t, a in X.items()}, d, tor)
        out = blk(mi) if name != "mi_average_pool" else mi.average_pool(patch)
        return {t: np.asarray(v).astype(np.float64) for t, v in out.items()}
    (t, a), = X.items()
    if name == "max_pool":
        return {t: np.asarray(geom.max_pool(d, jnp.asarray(a[0], dtype=sdt), patch, True)).astype(np.float64)[None]}
    if name == "average_pool":
        return {t: np.asarray(geom.average_pool(d, jnp.asarray(a[0], dtype=jnp.float32), patch))[None]}
    if name == "unpool":
        img = geom.GeometricImage(jnp.asarray(a[0], dtype=jnp.float32), t[1], d, tor)
        out = img.unpool(patch)
        if (out.k, out.parity, out.D) != (t[0], t[1], d):
            raise AssertionError("unpool changed the declared type")
        return {t: np.asarray(out.data)[None]}
    raise HarnessError(name)


def run_case(case):
    d, name, patch = case["d"], case["block"], case["patch"]
    shape = tuple(case["shape"])
    sig = gen.sig_tuple(case["sig"])
    ops = gen.ops(d)
    tor = (True,) * d
    pooling = name in ("MaxNormPool", "max_pool", "average_pool", "mi_average_pool", "unpool")
    exact = name in ("average_pool", "mi_average_pool", "unpool")
    labels = ["block_" + name, f"d{d}", "input_" + case["input"], f"patch{patch}", "storage_" + case.get("pool_dtype", "float32")] + [f"type{t[0]}{t[1]}" for t, _ in sig]
    if int(np.prod(shape)) * max(c for _, c in sig) >= 16384:
        labels.append("many_samples")
    if name == "GroupNorm":
        labels.append(f"groups{case['groups']}")
    key = [name, d, shape, case["sig"], case["groups"], patch, case["input"], case["act"] if name == "VN" else None]
    blk = _build(case)
    kind = "int" if exact else case["input"]
    xseed = case["xseed"]
    X = _make_input(case, xseed, kind)
    if name in ("MaxNormPool", "max_pool"):
        # the carve-out "unique maximum" is met by construction: re-draw until every patch has a clear winner
        for attempt in range(20):
            margin = min(ref.max_norm_pool(d, a[c], patch)[1] for a in X.values() for c in range(a.shape[0]))
            if margin > (1e-3 if kind == "generic" else 1e-5):
                break
            xseed += 1
            X = _make_input(case, xseed, kind)
        else:
            raise HarnessError("could not draw an input with unique patch maxima")
    base = _apply(case, blk, X, tor)
    nontrivial = (pooling or any(t != (0, 0) for t, _ in sig)) and case["input"] != "zero"
    evals = 0

    # definition of max pooling against the reference (unique maxima)
    if name in ("MaxNormPool", "max_pool"):
        for t, a in X.items():
            exp = np.stack([ref.max_norm_pool(d, a[c], patch)[0] for c in range(a.shape[0])])
            if rel_defect(base[t], exp) > 1e-6:
                return result(viol("C08/max_pool/definition", f"type {t}: {first_diff(base[t], exp.astype(np.float32))}"), nontrivial, key, labels)
    if name in ("average_pool", "mi_average_pool"):
        for t, a in X.items():
            ssum, div = ref.average_pool(d, a, patch, lead=1)
            if rel_defect(base[t], ssum / div) > 1e-6:
                return result(viol("C08/average_pool/definition", f"type {t}: {first_diff(base[t], ssum / div)}"), nontrivial, key, labels)
    if name == "unpool":
        (t, a), = X.items()
        if not exact_equal(base[t], ref.unpool(d, a, patch, lead=1)):
            return result(viol("C08/unpool/definition", f"type {t}: nearest-neighbour unpooling differs"), nontrivial, key, labels)
        back = np.asarray(geom.average_pool(d, jnp.asarray(base[t][0]), patch))
        if rel_defect(back, a[0]) > 1e-6:
            return result(viol("C08/unpool/average_pool-inverse", "average_pool(unpool(x)) != x"), nontrivial, key, labels)

    def defect_for(Xd, g, b=None):
        b = b if b is not None else _apply(case, blk, Xd, tor)
        gX = {t: ref.action(d, a, t[1], g, lead=1) for t, a in Xd.items()}
        lhs = _apply(case, blk, gX, ref.transport(tor, g))
        worst = (0.0, None)
        if set(lhs) != set(b):
            return (float("inf"), "types")
        for t in b:
            rhs = ref.action(d, b[t], t[1], g, lead=1)
            df = rel_defect(lhs[t], rhs)
            if df > worst[0]:
                worst = (df, t)
        return worst

    tol = 1e-6 if exact else FLOAT_TOL
    for gi, g in enumerate(ops):
        evals += 1
        df, t = defect_for(X, g, base)
        if df > tol:
            if not exact and case["input"] == "generic" and not pooling:
                fresh = [_make_input(case, xseed + 1000 + j, kind) for j in range(3)]
                if not all(defect_for(f, g)[0] > tol for f in fresh):
                    labels.append("redraw_rescued")
                    continue
            pk = f"type{t[0]}{t[1]}" if isinstance(t, tuple) else str(t)
            return result(viol(f"C08/equivariance/{name}/{pk}", f"g={np.asarray(g).tolist()} det={ref.det(g)}: block {t} relative defect {df:.3g} ({case['sig']}, groups={case['groups']}, input {case['input']}, shape {shape}, patch {patch})", g=gi),
                          nontrivial, key, labels, evals)
    # translations by multiples of the patch on tori
    if pooling:
        labels.append("translations")
        for s in it.product(*[range(n // patch if name != "unpool" else n) for n in shape]):
            if not any(s):
                continue
            evals += 1
            if name == "unpool":
                lhs = _apply(case, blk, {t: ref.roll(a, s, d, lead=1) for t, a in X.items()}, tor)
                rhs = {t: ref.roll(b, tuple(patch * v for v in s), d, lead=1) for t, b in base.items()}
            else:
                lhs = _apply(case, blk, {t: ref.roll(a, tuple(patch * v for v in s), d, lead=1) for t, a in X.items()}, tor)
                rhs = {t: ref.roll(b, s, d, lead=1) for t, b in base.items()}
            for t in base:
                if rel_defect(lhs[t], rhs[t]) > tol:
                    return result(viol(f"C08/translation/{name}", f"shift {s} x patch {patch}, type {t}"), nontrivial, key, labels, evals)
    return result(None, nontrivial, key, labels, evals)
