"""C14 — no cross-talk between batch entries, channels or tensor types."""
import numpy as np
from hypothesis import strategies as st

import jax
import jax.numpy as jnp
import jax.random as random
import equinox as eqx
import ginjax.geometric as geom
import ginjax.ml as ml

from gv import gen
from gv.common import exact_equal, first_diff, rel_defect, result, viol
from gv.ref import core as ref

PID = "C14"
TECHNIQUE = "property-based testing: per-image operations on multi-images with 0-3 leading axes of pairwise distinct sizes against entry-by-entry single-image reference results (exact, identifier values); vmap(layer/model)(batch)[i] == layer(batch[i]) and replace/permute-the-others metamorphic relation"
RULE = (
    "mode 'array': Hypothesis draws a signature (1-3 types, k<=2, storage order drawn), d in {1,2,3}, non-square extents, 0-3 leading axes whose sizes are "
    "pairwise distinct and differ from d and from every extent (so a reshape that leaks an axis changes a shape or a value), identifier values; "
    "times_group_element, norm, average_pool, get_component / batch_get_component and to_images must equal the single-image operation applied entry by "
    "entry (computed by the independent reference), exactly. mode 'layer': a layer (ConvContract, GroupNorm, LayerNorm, VectorNeuronNonlinear, MaxNormPool) or a small "
    "model with randomised parameters is applied through jax.vmap to a batch of 3-4 random inputs; entry i of the result must equal the layer applied to "
    "entry i alone (relative 1e-5), and must not change when the other entries are replaced or permuted. Non-trivial: >=2 leading axes, or a batch of >=3 in layer mode; "
    "distinct key = all drawn parameters."
)
ASSUMPTIONS = [
    "batch norm is excluded (it shares statistics across the batch by design)",
    "multi-type multi-images need >=1 leading axis",
    "get_component is only defined for exactly one leading axis (library assertion), batch_get_component for two",
]
CONFIG = {
    "quick": {"examples": 480, "shards": 16, "shrink_s": 40, "time_budget_s": 240},
    "thorough": {"examples": 12000, "shards": 16, "shrink_s": 200, "time_budget_s": 1500},
}


def draw_case(data, tier):
    mode = data.draw(st.sampled_from(["array", "array", "array", "array", "layer"]), label="mode")
    if mode == "array":
        d = data.draw(st.sampled_from([1, 2, 2, 3]), label="d")
        even = data.draw(st.booleans(), label="poolable")
        if even:
            shape = tuple(2 * data.draw(st.integers(1, 2)) for _ in range(d))
        else:
            shape, _ = gen.draw_shape(data, d, 1, 4 if d < 3 else 3, classes=("cubic", "distinct", "free"))
        nlead = data.draw(st.sampled_from([0, 1, 2, 2, 3]), label="nlead")
        forbidden = set(shape) | {d}
        pool_sizes = [n for n in [5, 7, 9, 11, 6] if n not in forbidden]
        batch = list(data.draw(st.permutations(pool_sizes), label="batch")[: max(0, nlead - 1)])
        chan_pool = [n for n in [1, 2, 3, 4, 8] if n not in forbidden and n not in batch] or [1]
        if nlead == 0:
            sig = gen.draw_signature(data, d, kmax=2, min_types=1, max_types=1, cmax=1)
        else:
            sig = gen.draw_signature(data, d, kmax=2, min_types=1, max_types=3, cmax=1)
            for s in sig:
                s[1] = data.draw(st.sampled_from(chan_pool), label="chan")
        return {"mode": mode, "d": d, "shape": list(shape), "nlead": nlead, "batch": batch, "sig": sig, "g": gen.draw_g(data, d),
                "future": data.draw(st.sampled_from([1, 1, 2]), label="future_steps"), "comp": data.draw(st.integers(-7, 6), label="component"),
                "comp_slice": data.draw(st.booleans(), label="component_is_slice")}
    d = data.draw(st.sampled_from([2, 2, 3]), label="d")
    layer = data.draw(st.sampled_from(["ConvContract", "GroupNorm", "LayerNorm", "VN", "MaxNormPool", "ConvBlock"]), label="layer")
    sig = gen.draw_signature(data, d, kmax=1, min_types=1, max_types=3, cmax=2)
    groups = 1
    if layer == "GroupNorm":
        for s in sig:
            s[1] = data.draw(st.sampled_from([2, 4]), label="chan")
        groups = 2
    return {"mode": mode, "d": d, "layer": layer, "sig": sig, "groups": groups, "N": 4 if d == 2 else 2, "batch": data.draw(st.integers(3, 4), label="B"),
            "seed": data.draw(st.integers(0, 9999), label="seed"), "perm_seed": data.draw(st.integers(0, 99), label="perm_seed")}


def _array_mode(case):
    d, shape, nlead = case["d"], tuple(case["shape"]), case["nlead"]
    batch = tuple(case["batch"])
    sig = [((int(t[0]), int(t[1])), int(c)) for t, c in case["sig"]]
    labels = ["mode_array", f"d{d}", f"nlead{nlead}", f"types{len(sig)}"]
    key = [d, shape, nlead, batch, case["sig"], case["g"], case["future"], case["comp"], case["comp_slice"]]
    nontrivial = nlead >= 2
    start = 1
    blocks = {}
    for t, c in sig:
        lead = batch + ((c,) if nlead > 0 else ())
        a = gen.ident_array(lead + shape + (d,) * t[0], start=start)
        start += a.size
        blocks[t] = a
    tor = tuple([True] + [False] * (d - 1))
    mi = geom.MultiImage({t: jnp.asarray(a, dtype=jnp.float32) for t, a in blocks.items()}, d, tor)
    g = gen.ops(d)[case["g"]]
    evals = 0

    def entries(a, k):
        lead_shape = a.shape[:nlead]
        for idx in np.ndindex(*lead_shape):
            yield idx, a[idx]

    # --- group action, entry by entry
    out = mi.times_group_element(np.asarray(g))
    for t, a in blocks.items():
        got = np.asarray(out[t])
        for idx, img in entries(a, t[0]):
            evals += 1
            exp = ref.action_naive(d, img, t[1], g) if img.size <= 64 else ref.action(d, img, t[1], g)
            if got[idx].shape != exp.shape or not exact_equal(got[idx], exp):
                return result(viol("C14/times_group_element", f"type {t} entry {idx} (lead {a.shape[:nlead]}): differs from the single-image action"), nontrivial, key, labels, evals)
    # --- norm: channels concatenated on the last leading axis in storage order
    if nlead >= 1:
        nm = mi.norm()
        if list(nm.keys()) != [(0, 0)]:
            return result(viol("C14/norm/types", f"{list(nm.keys())}"), nontrivial, key, labels, evals)
        got = np.asarray(nm[(0, 0)])
        exp = np.concatenate([ref.norm(a, nlead + d) for a in blocks.values()], axis=nlead - 1)
        if got.shape != exp.shape or rel_defect(got, exp) > 1e-6:
            return result(viol("C14/norm", f"shape {got.shape} vs {exp.shape}; defect {rel_defect(got, exp):.3g}"), nontrivial, key, labels, evals)
        labels.append("norm")
    # --- average pool
    if all(n % 2 == 0 for n in shape) and d >= 2:
        ap = mi.average_pool(2)
        labels.append("average_pool")
        for t, a in blocks.items():
            got = np.asarray(ap[t])
            ssum, div = ref.average_pool(d, a, 2, lead=nlead)
            if not exact_equal(got, ssum / div):
                return result(viol("C14/average_pool", f"type {t} lead {a.shape[:nlead]}: {first_diff(got, ssum / div)}"), nontrivial, key, labels, evals)
    # --- to_images
    imgs = mi.to_images()
    i = 0
    for t, a in blocks.items():
        for idx, img in entries(a, t[0]):
            im = imgs[i]
            i += 1
            if (im.k, im.parity) != t or not exact_equal(np.asarray(im.data), img):
                return result(viol("C14/to_images", f"image {i-1} is not entry {idx} of block {t}"), nontrivial, key, labels, evals)
    if i != len(imgs):
        return result(viol("C14/to_images/count", f"{len(imgs)} images for {i} entries"), nontrivial, key, labels, evals)
    # --- get_component (1 leading axis) / batch_get_component (2 leading axes)
    fut = case["future"]
    if nlead in (1, 2) and all(c % fut == 0 for _, c in sig):
        def ref_component(per_type_blocks):
            cols = []
            for t, a in per_type_blocks:  # a: (c*fut, spatial, tensor)
                c = a.shape[0] // fut
                x = a.reshape((c, fut) + shape + (-1,))
                for ch in range(c):
                    for comp in range(x.shape[-1]):
                        cols.append(x[ch, :, ..., comp])  # (fut, spatial)
            return cols
        ncomp = sum((c // fut) * d ** t[0] for t, c in sig)
        lo = case["comp"] % ncomp if case["comp"] >= 0 else -((-case["comp"] - 1) % ncomp) - 1  # negative indices count from the end
        if case["comp_slice"]:
            component = slice(lo, min(ncomp, lo + 2)) if lo >= 0 else slice(lo, None if lo + 2 >= 0 else lo + 2)
            sel = list(range(ncomp))[component]
        else:
            component = lo
            sel = [list(range(ncomp))[lo]]
        if lo < 0:
            labels.append("negative_component")
        if not sel:
            sel = None
        labels.append("get_component")
        if sel is None:
            pass
        elif nlead == 1:
            got = np.asarray(mi.get_component(component, fut)[(0, 0)])
            cols = ref_component(list(blocks.items()))
            exp = np.concatenate([cols[s] for s in sel], axis=0)
            if not exact_equal(got, exp):
                return result(viol("C14/get_component", f"component {component} future_steps={fut}: {first_diff(got, exp)}"), nontrivial, key, labels, evals)
        else:
            got = np.asarray(mi.batch_get_component(component, fut)[(0, 0)])
            for b in range(batch[0]):
                cols = ref_component([(t, a[b]) for t, a in blocks.items()])
                exp = np.concatenate([cols[s] for s in sel], axis=0)
                if got[b].shape != exp.shape or not exact_equal(got[b], exp):
                    return result(viol("C14/batch_get_component", f"batch entry {b} component {component}: differs from get_component on that entry"), nontrivial, key, labels, evals)
    return result(None, nontrivial, key, labels, max(evals, 1))


_BANKS = {}


def _bank(d):
    if d not in _BANKS:
        ops = [np.asarray(g) for g in gen.ops(d)]
        _BANKS[d] = geom.get_invariant_filters([3], [0, 1, 2], [0, 1], d, ops)
    return _BANKS[d]


def _randomise(module, seed):
    """Replace every inexact array leaf except invariant filter banks by leaf + N(0,1)*0.5."""
    from gv.netgen import perturb

    return perturb(module, seed, 0.5)


def _layer_mode(case):
    d, N, B = case["d"], case["N"], case["batch"]
    sig = gen.sig_tuple(case["sig"])
    labels = ["mode_layer", "layer_" + case["layer"], f"d{d}", f"B{B}"]
    key = [d, case["layer"], case["sig"], case["groups"], B]
    k0 = random.PRNGKey(case["seed"])
    name = case["layer"]
    if name == "ConvContract":
        layer = ml.ConvContract(sig, sig, _bank(d), key=k0)
    elif name == "GroupNorm":
        layer = ml.GroupNorm(sig, d, case["groups"])
    elif name == "LayerNorm":
        layer = ml.LayerNorm(sig, d)
    elif name == "VN":
        layer = ml.VectorNeuronNonlinear(sig, d, key=k0)
    elif name == "MaxNormPool":
        layer = ml.MaxNormPool(2)
    else:
        import ginjax.models as models

        blk = models.ConvBlock(d, sig, sig, conv_filters=_bank(d), use_group_norm=True, key=k0)
        layer = lambda x, _b=blk: _b(x)[0]
        layer = blk
    if name != "MaxNormPool":
        layer = _randomise(layer, case["seed"] + 1)
    call = (lambda m, x: m(x)[0]) if name == "ConvBlock" else (lambda m, x: m(x))
    rng = np.random.default_rng(case["seed"])
    data = {t: rng.standard_normal((B, c) + (N,) * d + (d,) * t[0]).astype(np.float32) for t, c in sig}
    tor = (True,) * d

    def mk(blocks):
        return geom.MultiImage({t: jnp.asarray(a) for t, a in blocks.items()}, d, tor)

    batched = jax.vmap(lambda x: call(layer, x))(mk(data))
    evals = 0
    for i in range(B):
        single = call(layer, mk({t: a[i] for t, a in data.items()}))
        evals += 1
        if set(single.keys()) != set(batched.keys()):
            return result(viol("C14/vmap/types", f"{list(single.keys())} vs {list(batched.keys())}"), True, key, labels, evals)
        for t in single.keys():
            df = rel_defect(np.asarray(batched[t])[i], np.asarray(single[t]))
            if df > 1e-4:
                return result(viol(f"C14/vmap-entry/{name}", f"entry {i} type {t}: vmap(layer)(batch)[i] differs from layer(batch[i]) by {df:.3g}"), True, key, labels, evals)
    # replace / permute the other entries: entry 0 must not move
    prng = np.random.default_rng(case["perm_seed"])
    other = {t: a.copy() for t, a in data.items()}
    perm = np.concatenate([[0], 1 + prng.permutation(B - 1)])
    for t in other:
        other[t] = other[t][perm]
        other[t][1] = 100.0 * prng.standard_normal(other[t][1].shape)
    batched2 = jax.vmap(lambda x: call(layer, x))(mk(other))
    for t in batched.keys():
        df = rel_defect(np.asarray(batched2[t])[0], np.asarray(batched[t])[0])
        if df > 1e-5:
            return result(viol(f"C14/cross-talk/{name}", f"type {t}: entry 0 changed by {df:.3g} when the other batch entries were replaced/permuted"), True, key, labels, evals)
    return result(None, B >= 3, key, labels, evals)


def run_case(case):
    return _array_mode(case) if case["mode"] == "array" else _layer_mode(case)
