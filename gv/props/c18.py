"""C18 — losses compute their definition, pair blocks by type and are symmetry-invariant."""
import numpy as np
from hypothesis import strategies as st

import jax
import jax.numpy as jnp
import ginjax.geometric as geom
import ginjax.ml as ml

from gv import gen
from gv.common import rel_defect, result, viol
from gv.ref import core as ref

PID = "C18"
TECHNIQUE = "property-based differential testing against a float64 numpy definition of each loss, plus metamorphic relations (storage-order / jit-history invariance, zero on equal arguments, non-negativity, invariance under a common group element)"
RULE = (
    "Hypothesis draws a signature (1-4 types, k<=2, both parities, with a forced class in which two blocks have equal element counts), batch 1..4, "
    "time steps 1..3, d in {2,3}, non-square extents, independent storage histories for prediction and target (insertion order, optional jit round trip), "
    "a group element g of B_d and a loss/reduce mode out of smse(mean|None), timestep_smse(mean|max|None), normalized_smse. The library value is compared with a "
    "float64 numpy evaluation of the definition (relative 2e-5); it must not depend on either argument's storage order or jit history; loss(x,x)==0 exactly; "
    "loss>=0; loss(g.x,g.y)==loss(x,y); sum over steps of the per-step loss == smse. Non-trivial: storage orders differ or g != e; distinct key = all parameters."
)
ASSUMPTIONS = ["float32 accumulation error of a correct implementation stays below 2e-5 relative for O(1) inputs of <= 2000 elements (observed <= 2e-6)"]
CONFIG = {
    "quick": {"examples": 480, "shards": 16, "shrink_s": 40, "time_budget_s": 240},
    "thorough": {"examples": 12000, "shards": 16, "shrink_s": 200, "time_budget_s": 1500},
}
MODES = [("smse", "mean"), ("smse", None), ("timestep", "mean"), ("timestep", "max"), ("timestep", None), ("normalized", "mean")]
TOL = 2e-5


def draw_case(data, tier):
    d = data.draw(st.sampled_from([2, 2, 3]), label="d")
    shape, _ = gen.draw_shape(data, d, 1, 4 if d == 2 else 3, classes=("cubic", "distinct", "free"))
    steps = data.draw(st.integers(1, 3), label="steps")
    if data.draw(st.booleans(), label="equal_size_class"):
        sig = [[[0, data.draw(st.integers(0, 1))], d], [[1, data.draw(st.integers(0, 1))], 1]]
        for t, c in gen.draw_signature(data, d, kmax=2, min_types=1, max_types=2, cmax=2):
            if t not in [s[0] for s in sig]:
                sig.append([t, c])
    else:
        sig = gen.draw_signature(data, d, kmax=2, min_types=1, max_types=4, cmax=3)
    n = len(sig)
    return {"d": d, "shape": list(shape), "steps": steps, "sig": sig, "batch": data.draw(st.integers(1, 4), label="batch") if data.draw(st.integers(0, 7), label="big_batch") else data.draw(st.integers(5, 40), label="batch_big"),
            "order_x": list(data.draw(st.permutations(list(range(n))), label="order_x")), "order_y": list(data.draw(st.permutations(list(range(n))), label="order_y")),
            "jit_x": data.draw(st.booleans(), label="jit_x"), "jit_y": data.draw(st.booleans(), label="jit_y"), "g": gen.draw_g(data, d),
            "mode": data.draw(st.integers(0, len(MODES) - 1), label="mode"), "seed": data.draw(st.integers(0, 99999), label="seed"),
            "ints": data.draw(st.booleans(), label="integer_values"),
            "near": data.draw(st.integers(0, 3), label="prediction_near_target") == 0}


def _ref_loss(which, reduce, X, Y, d, steps, spatial):
    B = next(iter(X.values())).shape[0]
    if which == "smse":
        per = np.zeros(B)
        for t in X:
            per += ((X[t] - Y[t]) ** 2).reshape(B, -1).sum(1) / spatial
        return per.mean() if reduce == "mean" else per
    if which == "timestep":
        per = np.zeros((B, steps))
        for t in X:
            a = X[t].reshape((B, -1, steps) + X[t].shape[2:])
            b = Y[t].reshape((B, -1, steps) + Y[t].shape[2:])
            sq = (a - b) ** 2
            per += np.moveaxis(sq, 2, 1).reshape(B, steps, -1).sum(2) / spatial
        if reduce == "mean":
            return per.mean(0)
        if reduce == "max":
            return per[np.argmax(per.sum(1))]
        return per
    per = np.zeros(B)
    for t in X:
        k = t[0]
        nrm2 = (Y[t] ** 2).reshape(Y[t].shape[: 2 + d] + (-1,)).sum(-1).reshape(Y[t].shape[: 2 + d] + (1,) * k)
        per += (((X[t] - Y[t]) ** 2) / (nrm2 + 1e-5)).reshape(B, -1).sum(1) / spatial
    return per.mean()


def _lib_loss(which, reduce, x, y, steps):
    if which == "smse":
        return np.asarray(ml.smse_loss(x, y, reduce), dtype=np.float64)
    if which == "timestep":
        return np.asarray(ml.timestep_smse_loss(x, y, steps, reduce), dtype=np.float64)
    return np.asarray(ml.normalized_smse_loss(x, y), dtype=np.float64)


def run_case(case):
    d, shape, steps, B = case["d"], tuple(case["shape"]), case["steps"], case["batch"]
    sig = [((int(t[0]), int(t[1])), int(c)) for t, c in case["sig"]]
    which, reduce = MODES[case["mode"]]
    g = gen.ops(d)[case["g"]]
    types = [t for t, _ in sig]
    ox = [types[i] for i in case["order_x"]]
    oy = [types[i] for i in case["order_y"]]
    sizes = [c * steps * d ** t[0] for t, c in sig]
    labels = [f"loss_{which}_{reduce}", f"d{d}", f"steps{steps}", "orders_differ" if ox != oy else "orders_same", "jit" if (case["jit_x"] or case["jit_y"]) else "nojit",
              "g_e" if case["g"] == 0 else ("g_reflect" if ref.det(g) == -1 else "g_rot"), "equal_size_blocks" if len(set(sizes)) < len(sizes) else "distinct_sizes"]
    key = [d, shape, steps, case["sig"], B, ox, oy, case["jit_x"], case["jit_y"], case["g"], case["mode"]]
    nontrivial = ox != oy or case["g"] != 0
    rng = np.random.default_rng(case["seed"])
    X, Y = {}, {}
    for t, c in sig:
        shp = (B, c * steps) + shape + (d,) * t[0]
        if case.get("near"):
            # a nearly converged prediction: target plus a relative 1e-3 perturbation, fields with an offset
            Y[t] = (5.0 + rng.standard_normal(shp)).astype(np.float32).astype(np.float64)
            X[t] = (Y[t] * (1.0 + 1e-3 * rng.standard_normal(shp))).astype(np.float32).astype(np.float64)
        elif case["ints"]:
            X[t] = rng.integers(-3, 4, size=shp).astype(np.float64)
            Y[t] = rng.integers(-3, 4, size=shp).astype(np.float64)
        else:
            X[t] = rng.standard_normal(shp).astype(np.float32).astype(np.float64)
            Y[t] = rng.standard_normal(shp).astype(np.float32).astype(np.float64)
    tor = (True,) * d
    spatial = int(np.prod(shape))

    def mk(blocks, order, jit):
        mi = geom.MultiImage({t: jnp.asarray(blocks[t], dtype=jnp.float32) for t in order}, d, tor)
        return jax.jit(lambda m: m)(mi) if jit else mi

    x = mk(X, ox, case["jit_x"])
    y = mk(Y, oy, case["jit_y"])
    exp = _ref_loss(which, reduce, X, Y, d, steps, spatial)
    got = _lib_loss(which, reduce, x, y, steps)
    if case.get("near"):
        labels.append("prediction_near_target")
        # small losses: measure the error relative to the loss itself (a correct float32 evaluation of sum (x-y)^2 keeps ~1e-6)
        if np.asarray(exp).shape == got.shape and rel_defect(got, exp, floor=1e-30) > 1e-3:
            return result(viol(f"C18/{which}/definition-near-target", f"prediction within 1e-3 of the target: got {got.tolist()}, float64 definition {np.asarray(exp).tolist()}"), nontrivial, key, labels)
    if np.asarray(exp).shape != got.shape:
        return result(viol(f"C18/{which}/shape", f"result shape {got.shape}, definition gives {np.asarray(exp).shape}"), nontrivial, key, labels)
    if rel_defect(got, exp) > TOL:
        # distinguish a wrong definition from a pairing problem: evaluate with both arguments in the same storage order
        same = _lib_loss(which, reduce, mk(X, types, False), mk(Y, types, False), steps)
        if rel_defect(same, exp) <= TOL:
            return result(viol(f"C18/{which}/pairing", f"prediction stored as {list(x.keys())}, target as {list(y.keys())}: loss {got.tolist()} but by-type definition gives {np.asarray(exp).tolist()}"), nontrivial, key, labels)
        return result(viol(f"C18/{which}/definition", f"reduce={reduce}: got {got.tolist()}, definition {np.asarray(exp).tolist()}"), nontrivial, key, labels)
    if np.any(got < 0):
        return result(viol(f"C18/{which}/negative", f"{got.tolist()}"), nontrivial, key, labels)
    # zero exactly on equal arguments (any storage history of the copy)
    zero = _lib_loss(which, reduce, x, mk(X, oy, case["jit_y"]), steps)
    if np.any(zero != 0):
        return result(viol(f"C18/{which}/zero-on-equal", f"loss(x,x)={zero.tolist()} with x stored as {list(x.keys())} / {oy}"), nontrivial, key, labels)
    # invariance under a common group element
    gx = x.times_group_element(np.asarray(g))
    gy = y.times_group_element(np.asarray(g))
    inv = _lib_loss(which, reduce, gx, gy, steps)
    if rel_defect(inv, got) > TOL:
        return result(viol(f"C18/{which}/group-invariance", f"g={g.tolist()}: {inv.tolist()} vs {got.tolist()}"), nontrivial, key, labels)
    # steps sum to the total
    if which == "timestep" and reduce is None:
        tot = _lib_loss("smse", None, x, y, steps)
        if rel_defect(got.sum(1), tot) > TOL:
            return result(viol("C18/timestep/sum-of-steps", f"{got.sum(1).tolist()} vs smse {tot.tolist()}"), nontrivial, key, labels)
    return result(None, nontrivial, key, labels, evals=4)
