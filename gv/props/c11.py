"""C11 — the linear layer computes its defining sum and returns the requested types."""
import numpy as np
from hypothesis import strategies as st

from gv import convgen, gen, layergen
from gv.common import assert_exact_bound, exact_equal, first_diff, rel_defect, result, viol
from gv.ref import core as ref

PID = "C11"
TECHNIQUE = "property-based differential testing of ConvContract against an independent numpy evaluation of the defining sum (exact integers: integer weights, scale='one' bank, integer inputs) plus the documented bias rule (float64, tolerance) and an output-signature predicate"
RULE = (
    "Hypothesis draws d in {2,3}, a filter bank (group B_d / rotations / C2^d, side 3 or side 2, scale='one'), input and target signatures over {(k,p): k<=2 (d=2), k<=1 (d=3)} "
    "with pairwise distinct channel counts in drawn key order, one of the five documented bias settings (auto, mean, scalar, True, False), a convolution option set "
    "(padding kinds incl. asymmetric explicit, stride 1..2, rhs/lhs dilation, per-axis torus flags, non-square images). Weights and biases are replaced by drawn integers "
    "in [-3,3]. Output block of target type t must equal sum_s contract(convolve(x_s, sum_f W[s,t][:,:,f] bank_f)) exactly, plus the bias rule (constant only for (0,0); "
    "mean-scaled otherwise; none for 'scalar' on non-scalars / False) within 1e-5; the output must contain exactly the target types reachable through the bank with the "
    "requested channel counts and the spatial shape of the size formula. Non-trivial: >=2 input types feed one target type or a bias mode other than False; distinct key = all parameters."
)
ASSUMPTIONS = [
    "scale='one' banks have entries in {0,+-1} (checked at run time), so the multilinear part is exact in float32 below 2^24",
    "strided + lhs-dilated cases run in an isolated child process because of an XLA compiler abort on a small fraction of them",
]
CONFIG = {
    "quick": {"examples": 256, "shards": 16, "shrink_s": 40, "time_budget_s": 270},
    "thorough": {"examples": 14000, "shards": 16, "shrink_s": 200, "time_budget_s": 1500},
}
is_risky = layergen.is_risky


def draw_case(data, tier):
    return layergen.draw_layer_case(data)


def run_case(case):
    d, opts = case["d"], case["opts"]
    mode = layergen.BIAS_MODES[case["bias"]]
    labels = ["channels_equal" if len({c for _, c in case["in_sig"]}) == 1 and len({c for _, c in case["out_sig"]}) == 1 and len(case["out_sig"]) > 1 else "channels_mixed",
              f"d{d}", "G_" + case["G"], f"M{case['M']}", f"bias_{mode}"] + convgen.option_labels(opts, d)
    key = [d, case["G"], case["M"], case["in_sig"], case["out_sig"], case["bias"], opts]
    bank = layergen.the_bank(case)
    for t, v in bank.items():
        if not np.all(np.isin(np.asarray(v), (-1.0, 0.0, 1.0))):
            from gv.common import HarnessError
            raise HarnessError("scale='one' bank is not integral")
    layer, W, Bv = layergen.build_layer(case)
    X = layergen.make_input(case, case["xseed"], "int")
    x = layergen.to_mi(case, X)
    out = layer(x)
    reach = layergen.reachable_targets(case)
    in_types = [t for t, _ in gen.sig_tuple(case["in_sig"])]
    feeders = {t: sum(1 for s in in_types if (s[0] + t[0], (s[1] + t[1]) % 2) in bank) for t, _ in reach}
    nontrivial = any(v >= 2 for v in feeders.values()) or mode is not False
    if len(reach) < len(case["out_sig"]):
        labels.append("unreachable_target")
    if any(v >= 2 for v in feeders.values()):
        labels.append("multi_feeder")
    # signature predicate
    got_types = list(out.keys())
    if set(got_types) != {t for t, _ in reach}:
        missing = [t for t, _ in reach if t not in got_types]
        extra = [t for t in got_types if t not in [r for r, _ in reach]]
        return result(viol(f"C11/output-types/bias_{mode}", f"use_bias={mode!r}: output types {got_types}; reachable requested types {[t for t, _ in reach]} (missing {missing}, unexpected {extra})"), nontrivial, key, labels)
    lin = layergen.ref_layer_linear(case, X, W)
    for a in lin.values():
        assert_exact_bound(a)
    exp = layergen.ref_bias(case, lin, Bv)
    rkw = convgen.kwargs_for_ref(opts, d)
    osz = ref.out_size(d, opts["shape"], [case["M"]] * d, rkw["is_torus"], rkw["stride"], rkw["padding"], rkw["lhs"], rkw["rhs"])
    for t, c in reach:
        g = np.asarray(out[t])
        if g.shape != (c,) + tuple(osz) + (d,) * t[0]:
            return result(viol("C11/output-shape", f"type {t}: shape {g.shape}, requested {c} channels on {osz}"), nontrivial, key, labels)
        if mode is False or (mode == "scalar" and t != (0, 0)):
            ok = exact_equal(g, lin[t])
        else:
            ok = rel_defect(g, exp[t]) < 1e-5
        if not ok:
            # attribute: linear part or bias
            from gv import layergen as lg
            case0 = dict(case, bias=4)
            layer0, _, _ = lg.build_layer(case0)
            out0 = layer0(x)
            if t in out0 and exact_equal(np.asarray(out0[t]), lin[t]):
                return result(viol(f"C11/bias-rule/bias_{mode}", f"type {t} use_bias={mode!r}: defect {rel_defect(g, exp[t]):.3g} against the documented bias rule"), nontrivial, key, labels)
            return result(viol("C11/defining-sum", f"type {t}: {first_diff(g, lin[t])} ({case['in_sig']} -> {case['out_sig']}, {opts})"), nontrivial, key, labels)
    if out.D != d or tuple(out.is_torus) != tuple(bool(b) for b in opts["is_torus"]):
        return result(viol("C11/metadata", f"D={out.D} torus={out.is_torus}"), nontrivial, key, labels)
    return result(None, nontrivial, key, labels, evals=len(reach))
