"""C19 — stopping conditions stop training exactly when specified, for any loss history."""
import itertools as it

import numpy as np
from hypothesis import strategies as st

import jax
import jax.numpy as jnp
import jax.random as random
import equinox as eqx
import optax
import ginjax.geometric as geom
import ginjax.ml as ml
import ginjax.models as models

from gv.common import HarnessError, result, viol

PID = "C19"
TECHNIQUE = "exhaustive enumeration of loss histories over a 3-letter alphabet (bounded length) x patience x min_delta x monitored quantity x scalar representation against a 6-line reference state machine; Hypothesis for longer float histories; real ml.train runs under a recording stop condition with a bounded-overrun safety oracle"
RULE = (
    "Enumerated: every loss history over the ordered alphabet {1.0,2.0,3.0} (and, two symbols shorter, over {1.0,2.0,3.0,NaN}: a NaN loss is never an improvement) up to length 7 (quick: 6; 0-d JAX arrays up to length 5/4) x patience 0..3 x "
    "min_delta in {0,0.5,1.0} x monitored in {train,validation} x scalar representation in {python float, numpy.float32, numpy.float64, 0-d jax array}, driven the way "
    "ml.train drives a stop condition (first call at epoch 0 with None losses, a distinct sentinel object as the model of every epoch, the unmonitored loss strictly "
    "improving so that it must be ignored). Oracle: best=inf, since=0; on loss l: if l < best-delta then best=l, best_model=current, since=0 else since+=1; stop at the "
    "first epoch with since>patience. stop() must return True exactly there and never earlier and best_model must be the sentinel of the reference best epoch. "
    "EpochStop must stop at exactly n epochs and hand back the last model. Hypothesis adds histories of random floats up to length 30. Mode 'train': ml.train on a tiny "
    "model with TrainLoss/ValLoss/EpochStop wrapped in a recording subclass; the expected stopping epoch is computed from the recorded losses by the reference, training "
    "must not run more than 2 epochs past it (bounded safety, no wall clock) and must return the recorded best model. Non-trivial: history with at least one "
    "non-improving epoch; distinct key = full tuple."
)
ASSUMPTIONS = [
    "termination is decided as bounded safety: the recording condition raises once training overruns the reference stopping epoch by 2",
    "numpy.float64 is a subclass of float; it is enumerated separately because the type guard in the implementation treats it differently from numpy.float32",
]
CONFIG = {
    "quick": {"examples": 200, "shards": 16, "shrink_s": 30, "time_budget_s": 240},
    "thorough": {"examples": 40000, "shards": 16, "shrink_s": 120, "time_budget_s": 1500},
}
EXHAUSTIVE = {
    "quick": "all histories over {1,2,3} of length <= 6 (jax scalars <= 4) x patience 0..3 x min_delta {0,0.5,1} x {train,val} x 4 scalar representations; EpochStop n in 0..6",
    "thorough": "all histories over {1,2,3} of length <= 7 (jax scalars <= 5) x patience 0..3 x min_delta {0,0.5,1} x {train,val} x 4 scalar representations; EpochStop n in 0..6",
}
ALPHABET = [1.0, 2.0, 3.0]
REPRS = ["float", "np32", "np64", "jax"]


def _conv(v, kind):
    if kind == "float":
        return float(v)
    if kind == "np32":
        return np.float32(v)
    if kind == "np64":
        return np.float64(v)
    return jnp.asarray(v, dtype=jnp.float32)


def ref_stop_epoch(history, patience, delta):
    """Returns (stop_epoch or None, best_epoch or None); epochs are 1-based (call index)."""
    best, since, best_epoch = float("inf"), 0, None
    for e, l in enumerate(history, start=1):
        if l < best - delta:
            best, since, best_epoch = l, 0, e
        else:
            since += 1
        if since > patience:
            return e, best_epoch
    return None, best_epoch


def enumerate_cases(tier):
    maxlen = 6 if tier == "quick" else 7
    cases = []
    for patience in range(4):
        for delta in (0.0, 0.5, 1.0):
            for mon in ("train", "val"):
                for kind in REPRS:
                    L = maxlen if kind != "jax" else maxlen - 2
                    for first in range(3):
                        cases.append({"mode": "enum", "patience": patience, "delta": delta, "monitor": mon, "repr": kind, "maxlen": L, "first": first})
                    # a diverged run: NaN joins the alphabet (a NaN loss never counts as an improvement), shorter histories
                    if delta == 0.0 or patience == 1:
                        for first in range(4):
                            cases.append({"mode": "enum", "patience": patience, "delta": delta, "monitor": mon, "repr": kind, "maxlen": L - 2, "first": first, "nan": True})
    for n in range(0, 7):
        cases.append({"mode": "epochstop", "n": n, "repr": REPRS[n % 4]})
    for i, (cond, patience, lr, delta, opt) in enumerate([
        ("TrainLoss", 0, 0.0, 0.0, "sgd"), ("TrainLoss", 2, 0.0, 0.0, "adam"), ("ValLoss", 1, 0.0, 0.0, "sgd"), ("ValLoss", 0, 0.05, 1e6, "sgd"),
        ("TrainLoss", 1, 0.05, 1e6, "adam"), ("EpochStop", 3, 0.05, 0.0, "sgd"), ("TrainLoss", 3, 0.0, 0.5, "sgd"), ("ValLoss", 2, 0.0, 0.0, "adam"),
    ]):
        if tier == "quick" and i >= 6:
            continue
        cases.append({"mode": "train", "cond": cond, "patience": patience, "lr": lr, "delta": delta, "opt": opt, "seed": i})
    return cases


def draw_case(data, tier):
    mode = data.draw(st.sampled_from(["float_history"] * 6 + ["epochstop"]), label="mode")
    if mode == "epochstop":
        return {"mode": "epochstop", "n": data.draw(st.integers(0, 12), label="n"), "repr": data.draw(st.sampled_from(REPRS), label="repr")}
    L = data.draw(st.integers(1, 30), label="len")
    hist = [data.draw(st.floats(min_value=0.0, max_value=8.0, allow_nan=False, allow_subnormal=False, width=32), label="loss") for _ in range(L)]
    if data.draw(st.integers(0, 4), label="diverges") == 0:  # a run that diverges: NaN from some epoch on
        a = data.draw(st.integers(0, L - 1), label="nan_from")
        for i in range(a, L):
            hist[i] = float("nan")
    plateau = data.draw(st.booleans(), label="plateau")
    if plateau and L > 2:
        a = data.draw(st.integers(0, L - 2), label="plateau_start")
        for i in range(a, L):
            hist[i] = hist[a]
    return {"mode": "float_history", "history": hist, "patience": data.draw(st.integers(0, 5), label="patience"),
            "delta": data.draw(st.sampled_from([0.0, 0.0, 0.25, 1.0]), label="delta"), "monitor": data.draw(st.sampled_from(["train", "val"]), label="monitor"),
            "repr": data.draw(st.sampled_from(REPRS), label="repr")}


class _Sentinel:
    def __init__(self, e):
        self.e = e


def _drive(history, patience, delta, monitor, kind):
    """Drive a fresh condition like ml.train does. Returns violation or None."""
    cond = (ml.TrainLoss if monitor == "train" else ml.ValLoss)(patience=patience, min_delta=delta)
    exp_stop, exp_best = ref_stop_epoch(history, patience, delta)
    m0 = _Sentinel(0)
    cond.best_model = m0
    if cond.stop(m0, 0, None, None, 0.0):
        return viol(f"C19/{monitor}/stops-before-training", "stop() returned True at epoch 0 with no losses")
    for e, l in enumerate(history, start=1):
        other = _conv(100.0 - e, kind)  # the unmonitored loss improves strictly: it must be ignored
        mon = _conv(l, kind)
        tl, vl = (mon, other) if monitor == "train" else (other, mon)
        stopped = bool(cond.stop(_Sentinel(e), e, tl, vl, 0.0))
        if stopped and exp_stop != e:
            return viol(f"C19/{monitor}/stops-early", f"history {history[:e]} patience={patience} delta={delta} repr={kind}: stopped at epoch {e}, reference stops at {exp_stop}")
        if not stopped and exp_stop == e:
            return viol(f"C19/{monitor}/does-not-stop/{kind}", f"history {history[:e]} patience={patience} delta={delta} losses given as {kind}: stop() returned False at epoch {e} where more than {patience} consecutive epochs failed to improve by more than {delta}")
        if stopped:
            break
    upto = exp_stop if exp_stop is not None else len(history)
    _, best_e = ref_stop_epoch(history[:upto], patience, delta)
    got = cond.best_model.e if isinstance(cond.best_model, _Sentinel) else None
    want = best_e if best_e is not None else 0
    if got != want:
        return viol(f"C19/{monitor}/best-model", f"history {history[:upto]} patience={patience} delta={delta} repr={kind}: best_model is the model of epoch {got}, the best loss was reached at epoch {want}")
    return None


class _Tiny(models.MultiImageModule):
    w: jax.Array

    def __init__(self, w):
        self.w = jnp.asarray(w, dtype=jnp.float32)

    def __call__(self, x, aux_data=None):
        return x * self.w, aux_data


def _map_and_loss(model, x, y, aux_data):
    pred, aux_data = jax.vmap(model, in_axes=(0, None), out_axes=(0, None))(x, aux_data)
    return ml.smse_loss(pred, y), aux_data


class _Overrun(Exception):
    pass


def _train_case(case):
    labels = ["mode_train", "cond_" + case["cond"], "opt_" + case["opt"], "lr0" if case["lr"] == 0 else "lr>0"]
    key = ["train", case["cond"], case["patience"], case["lr"], case["delta"], case["opt"]]
    records = []
    cond_name, patience, delta = case["cond"], case["patience"], case["delta"]
    base = {"TrainLoss": ml.TrainLoss, "ValLoss": ml.ValLoss, "EpochStop": ml.EpochStop}[cond_name]

    class Recording(base):
        def stop(self, model, current_epoch, train_loss, val_loss, epoch_time):
            records.append((current_epoch, None if train_loss is None else float(train_loss), None if val_loss is None else float(val_loss), model, type(train_loss).__name__))
            if cond_name == "EpochStop":
                exp = patience
            else:
                hist = [r[1] if cond_name == "TrainLoss" else r[2] for r in records[1:]]
                exp, _ = ref_stop_epoch(hist, patience, delta)
            if (exp is not None and current_epoch > exp + 2) or current_epoch > 40:
                raise _Overrun()
            return super().stop(model, current_epoch, train_loss, val_loss, epoch_time)

    cond = Recording(patience) if cond_name == "EpochStop" else Recording(patience=patience, min_delta=delta)
    rng = np.random.default_rng(case["seed"])
    d = 2
    X = geom.MultiImage({(0, 0): jnp.asarray(rng.standard_normal((4, 1, 3, 3)), dtype=jnp.float32)}, d)
    Y = geom.MultiImage({(0, 0): 2.0 * X[(0, 0)]}, d)
    opt = optax.sgd(case["lr"]) if case["opt"] == "sgd" else optax.adam(case["lr"])
    model0 = _Tiny(0.5)
    try:
        out_model, _, train_loss, val_loss = ml.train(X, Y, _map_and_loss, model0, random.PRNGKey(case["seed"]), cond, 2, opt,
                                                       validation_X=X, validation_Y=Y, devices=[jax.devices()[0]])
    except _Overrun:
        last = records[-1]
        return result(viol(f"C19/train/never-stops/{cond_name}", f"ml.train with {cond_name}(patience={patience}, min_delta={delta}) ran past the reference stopping epoch + 2 on monitored losses {[r[1] if cond_name != 'ValLoss' else r[2] for r in records[1:]]} (losses arrive as {last[4]})"), True, key, labels, len(records))
    if cond_name == "EpochStop":
        if len(records) != patience + 1:
            return result(viol("C19/train/epochstop-count", f"{len(records) - 1} epochs for EpochStop({patience})"), True, key, labels, len(records))
        if out_model is not records[-1][3]:
            return result(viol("C19/train/epochstop-model", "returned model is not the last model"), True, key, labels, len(records))
        return result(None, True, key, labels, len(records))
    hist = [r[1] if cond_name == "TrainLoss" else r[2] for r in records[1:]]
    exp, best_e = ref_stop_epoch(hist, patience, delta)
    if exp is None or len(records) - 1 != exp:
        return result(viol(f"C19/train/stop-epoch/{cond_name}", f"training ended after {len(records) - 1} epochs, reference on the recorded losses {hist}: {exp}"), True, key, labels, len(records))
    if out_model is not records[best_e][3]:
        return result(viol(f"C19/train/best-model/{cond_name}", f"returned model is not the model recorded at the best epoch {best_e} (losses {hist})"), True, key, labels, len(records))
    return result(None, True, key, labels, len(records))


def run_case(case):
    mode = case["mode"]
    if mode == "train":
        return _train_case(case)
    if mode == "epochstop":
        n, kind = case["n"], case["repr"]
        cond = ml.EpochStop(n)
        labels = ["mode_epochstop", "repr_" + kind]
        key = ["epochstop", n, kind]
        e = 0
        last = _Sentinel(0)
        cond.best_model = last
        tl = None
        while True:
            stopped = bool(cond.stop(last, e, tl, tl, 0.0))
            if stopped != (e >= n):
                return result(viol("C19/epochstop/epoch", f"EpochStop({n}).stop at epoch {e} returned {stopped}"), True, key, labels)
            if cond.best_model is not last:
                return result(viol("C19/epochstop/model", f"best_model is not the last model at epoch {e}"), True, key, labels)
            if stopped:
                break
            e += 1
            last = _Sentinel(e)
            tl = _conv(1.0 / e, kind)
            if e > n + 3:
                raise HarnessError("loop")
        return result(None, n > 0, key, labels, evals=e + 1)
    if mode == "float_history":
        # subnormal losses are flushed to zero by XLA on CPU: not a meaningful loss value, never generated (and mapped to 0 if
        # an old replay file contains one)
        hist = [0.0 if (h == h and 0.0 < abs(h) < 1.2e-38) else float(np.float32(h)) for h in case["history"]]
        if any(h != h for h in hist):
            pass
        labels = ["mode_float_history", "repr_" + case["repr"], "monitor_" + case["monitor"], f"patience{min(case['patience'], 4)}"]
        key = ["fh", hist, case["patience"], case["delta"], case["monitor"], case["repr"]]
        v = _drive(hist, case["patience"], case["delta"], case["monitor"], case["repr"])
        stop, _ = ref_stop_epoch(hist, case["patience"], case["delta"])
        if stop is not None:
            labels.append("reference_stops")
        nontrivial = any(not (hist[i] < min(hist[:i])) for i in range(1, len(hist)))
        if any(h != h for h in hist):
            labels.append("history_with_nan")
        return result(v, nontrivial, key, labels, evals=len(hist))
    # enumerated block: all histories with the given first symbol up to maxlen
    patience, delta, mon, kind, maxlen, first = case["patience"], case["delta"], case["monitor"], case["repr"], case["maxlen"], case["first"]
    labels = ["mode_enum", "repr_" + kind, "monitor_" + mon, f"patience{patience}", f"delta{delta}"]
    key = ["enum", patience, delta, mon, kind, maxlen, first]
    count = 0
    alphabet = ALPHABET + [float("nan")] if case.get("nan") else ALPHABET
    if case.get("nan"):
        labels.append("alphabet_with_nan")
    for L in range(1, maxlen + 1):
        for tail in it.product(range(len(alphabet)), repeat=L - 1):
            hist = [alphabet[first]] + [alphabet[i] for i in tail]
            count += 1
            v = _drive(hist, patience, delta, mon, kind)
            if v is not None:
                return result(v, True, key, labels, evals=count)
    return result(None, True, key, labels, evals=count)
