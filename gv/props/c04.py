"""C04 — convolution computes its mathematical definition in every mode."""
import numpy as np
from hypothesis import strategies as st

import jax.numpy as jnp
import ginjax.geometric as geom

from gv import convgen, gen
from gv.common import assert_exact_bound, exact_equal, first_diff, result, viol
from gv.ref import core as ref

PID = "C04"
TECHNIQUE = "property-based differential testing: generated option sets (padding x torus x stride x dilations x shapes x channels) against a direct-sum numpy int64 reference, exact comparison"
RULE = (
    "Hypothesis draws d in {2,3}, a padding kind out of {TORUS,SAME,VALID,int,explicit symmetric,explicit asymmetric,None}, "
    "torus flags (bool or per-axis tuple), stride / rhs dilation (scalar or per-axis, 1..3), optional lhs dilation, filter extents "
    "1..4 (even / non-square only with literal padding), image extents = minimal non-empty extent + 0..3, batch, in/out channels 1..3 "
    "and (k,k') with k+k'<=3; inputs are integers in [-3,3] or the complete one-hot bases (image basis on the batch axis, filter basis on the "
    "out-channel axis). geom.convolve is compared exactly with the direct sum, plus the output-size formula, bilinearity, "
    "convolve_contract = convolve then Kronecker contraction, convolve_ravel in its documented layout, GeometricImage.convolve_with, "
    "and documented rejections. Non-trivial: non-zero output and at least one option away from its default; distinct key = option tuple + shapes."
)
ASSUMPTIONS = [
    "cases with stride>1 AND lhs dilation>1 run in an isolated child process because the XLA CPU compiler aborts (CHECK failure in its convolution operand swap) on a small fraction of them; aborted cases are excluded and listed under coverage.process_aborts_in_native_code",
    "float32 arithmetic is exact on integers below 2^24 (bound asserted on the reference output)",
    "toroidal wrap happens before zero interleaving (image dilation), as in the implementation's P",
    "reference convolution gv.ref.core.convolve self-tested against a per-output-pixel formulation",
]
CONFIG = {
    "quick": {"examples": 1600, "shards": 16, "shrink_s": 40, "time_budget_s": 240},
    "thorough": {"examples": 45000, "shards": 16, "shrink_s": 200, "time_budget_s": 1500},
}


def draw_case(data, tier):
    d = data.draw(st.sampled_from([2, 2, 2, 3]), label="d")
    big = data.draw(st.integers(0, 9), label="big") == 0
    opts = convgen.draw_conv_options(data, d, max_extra=12 if big else 3, max_ext=(20 if d == 2 else 8) if big else None)
    ktot = data.draw(st.sampled_from([0, 1, 1, 2, 2, 3] if d == 2 else [0, 1, 1, 2, 2]), label="ktot")
    k = data.draw(st.integers(0, ktot), label="k")
    kf = ktot - k
    mode = data.draw(st.sampled_from(["rand", "rand", "rand", "basis", "reject"]), label="mode")
    case = {"d": d, "opts": opts, "k": k, "kf": kf, "mode": mode}
    if mode == "basis":
        case["B"], case["C"], case["O"] = 0, 1, 0
    else:
        case["B"] = data.draw(st.integers(1, 3), label="B")
        case["C"] = data.draw(st.integers(1, 9 if big else 3), label="C")
        case["O"] = data.draw(st.integers(1, 9 if big else 3), label="O")
    case["seed"] = data.draw(st.integers(0, 2**20), label="seed")
    # storage dtype of image and filter (the operation is defined on real values; integer-typed arrays are accepted and cast)
    case["dtype"] = data.draw(st.sampled_from(["float32", "float32", "float32", "int32", "int8", "uint8", "int16"]), label="dtype")
    cck = data.draw(st.integers(0, 2), label="cc_k")
    case["cc"] = [cck, cck + data.draw(st.integers(0, 2 if d == 2 else 1), label="cc_out_k")]
    case["ab"] = [data.draw(st.integers(-2, 3), label="a"), data.draw(st.integers(-3, 2), label="b")]
    if mode == "reject":
        case["reject_kind"] = data.draw(st.sampled_from(["even_string", "channel_mismatch"]), label="reject_kind")
    return case


def is_risky(case):
    """Strided convolutions with image dilation can hit a CHECK failure inside the XLA CPU compiler
    (algebraic simplifier / conv operand swap) that aborts the process: run them in a sacrificial child."""
    o = case["opts"]
    # observed: aborts need image dilation > 1 together with stride > 1 or filter dilation > 1 (the twin evaluation of C04
    # raises the filter dilation), so every case with image dilation > 1 is isolated
    return o["lhs"] is not None and max(o["lhs"]) > 1


_DTYPE = ["float32"]


def _lib_conv(d, A, F, kw):
    dt = getattr(jnp, _DTYPE[0])
    return np.asarray(geom.convolve(d, jnp.asarray(A, dtype=dt), jnp.asarray(F, dtype=dt), **kw)).astype(np.float64)


def run_case(case):
    d, opts, k, kf, mode = case["d"], case["opts"], case["k"], case["kf"], case["mode"]
    sp, fs = tuple(opts["shape"]), tuple(opts["fshape"])
    kw = convgen.kwargs_for_lib(opts, d)
    rkw = convgen.kwargs_for_ref(opts, d)
    labels = [f"d{d}", f"k{k}", f"kf{kf}", "mode_" + mode] + convgen.option_labels(opts, d)
    key = [d, opts, k, kf, mode, case["B"], case["C"], case["O"], case.get("cc")]

    if mode == "reject":
        # inputs the documentation says are not accepted must raise, not return numbers
        if case["reject_kind"] == "even_string":
            fs_bad = list(fs)
            fs_bad[0] = 2
            A = np.ones((1, 1) + sp + (d,) * k)
            F = np.ones((1, 1) + tuple(fs_bad) + (d,) * kf)
            kw2 = dict(kw)
            kw2["padding"] = "SAME" if opts["pad_kind"] not in ("TORUS", "None") else kw["padding"]
            if isinstance(kw2["padding"], (tuple, int)):
                kw2["padding"] = "SAME"
        else:
            A = np.ones((1, 2) + sp + (d,) * k)
            F = np.ones((1, 3) + fs + (d,) * kf)
            kw2 = kw
        try:
            out = _lib_conv(d, A, F, kw2)
        except (AssertionError, TypeError, ValueError):
            return result(None, False, key, labels + ["rejected_cleanly"])
        return result(viol("C04/reject/" + case["reject_kind"], f"documented-invalid input returned an array of shape {out.shape}"), True, key, labels)

    rng = np.random.default_rng(case["seed"])
    _DTYPE[0] = case.get("dtype", "float32") if mode == "rand" else "float32"
    labels.append("dtype_" + _DTYPE[0])
    if mode == "basis":
        nA = int(np.prod(sp)) * d**k
        nF = int(np.prod(fs)) * d**kf
        if nA * nF > 6000:
            mode = "rand"
            case = dict(case, B=2, C=1, O=2)
            labels.append("basis_too_large")
        else:
            A = gen.basis(sp + (d,) * k).reshape((nA, 1) + sp + (d,) * k)
            F = gen.basis(fs + (d,) * kf).reshape((nF, 1) + fs + (d,) * kf)
    if mode != "basis":
        B, C, O = case["B"], case["C"], case["O"]
        lo_val = 0 if _DTYPE[0] == "uint8" else -3
        A = rng.integers(lo_val, 4, size=(B, C) + sp + (d,) * k)
        F = rng.integers(lo_val, 4, size=(O, C) + fs + (d,) * kf)
    # call history: a "twin" option set with identical array shapes but other torus flags (or another filter dilation) is
    # evaluated first, so that anything memoised per shape but depending on the options shows up in the case itself
    twin = dict(opts)
    t0 = opts["is_torus"]
    twin["is_torus"] = [not b for b in t0] if isinstance(t0, list) else (not t0)
    if opts["pad_kind"] not in ("TORUS", "None"):
        r0 = opts["rhs"]
        twin["rhs"] = [v + 1 for v in r0] if isinstance(r0, list) else r0 + 1
    tkw, trkw = convgen.kwargs_for_lib(twin, d), convgen.kwargs_for_ref(twin, d)
    if all(n > 0 for n in ref.out_size(d, sp, fs, trkw["is_torus"], trkw["stride"], trkw["padding"], trkw["lhs"], trkw["rhs"])):  # (a risky main case already runs in the isolated child, and the twin keeps the image dilation)
        texp = ref.convolve(d, A, F, **trkw)
        tgot = _lib_conv(d, A, F, tkw)
        labels.append("twin_evaluated")
        if not exact_equal(tgot, texp):
            return result(viol("C04/convolve/definition", f"(twin option set) {twin} k={k} kf={kf}: {first_diff(tgot, texp)}"), True, key, labels)
    exp = ref.convolve(d, A, F, **rkw)
    assert_exact_bound(exp)
    osz = ref.out_size(d, sp, fs, rkw["is_torus"], rkw["stride"], rkw["padding"], rkw["lhs"], rkw["rhs"])
    got = _lib_conv(d, A, F, kw)
    nontrivial = bool(np.any(exp != 0)) and len(labels) > 5
    if tuple(got.shape[2 : 2 + d]) != tuple(osz):
        return result(viol("C04/convolve/out-size", f"output extents {got.shape[2:2+d]} != size formula {osz} for {opts}"), nontrivial, key, labels)
    if not exact_equal(got, exp):
        return result(viol("C04/convolve/definition", f"{opts} k={k} kf={kf}: {first_diff(got, exp)}"), nontrivial, key, labels)

    evals = 1
    _DTYPE[0] = "float32"
    if mode == "rand":
        a, b = case["ab"]
        A2 = rng.integers(-3, 4, size=A.shape)
        F2 = rng.integers(-3, 4, size=F.shape)
        lhs = _lib_conv(d, a * A + b * A2, F, kw)
        rhs = a * got + b * _lib_conv(d, A2, F, kw)
        if not exact_equal(lhs, rhs):
            return result(viol("C04/convolve/linear-in-image", first_diff(lhs, rhs)), nontrivial, key, labels)
        lhs = _lib_conv(d, A, a * F + b * F2, kw)
        rhs = a * got + b * _lib_conv(d, A, F2, kw)
        if not exact_equal(lhs, rhs):
            return result(viol("C04/convolve/linear-in-filter", first_diff(lhs, rhs)), nontrivial, key, labels)
        evals += 4

        # fused convolve + contract: image index a is contracted with filter index a (filter order kf >= k),
        # with its own types (image k <= 2, filter k + k_out) as the linear layer uses it
        ck, ckf = case["cc"]
        Ac = rng.integers(-2, 3, size=A.shape[: 2 + d] + (d,) * ck)
        Fc = rng.integers(-2, 3, size=F.shape[: 2 + d] + (d,) * ckf)
        cc = np.asarray(geom.convolve_contract(d, jnp.asarray(Ac, dtype=jnp.float32), jnp.asarray(Fc, dtype=jnp.float32), **kw))
        full = ref.convolve(d, Ac, Fc, **rkw)
        assert_exact_bound(full)
        expc = ref.multicontract(full, tuple((i, ck + i) for i in range(ck)), 2 + d)
        labels.append(f"convolve_contract_k{ck}_kf{ckf}")
        if not exact_equal(cc, expc):
            return result(viol("C04/convolve_contract/definition", f"image k={ck} filter k={ckf} {opts}: {first_diff(cc, expc)}"), nontrivial, key, labels)
        evals += 1

        # convolve_ravel in its documented layout: image (b,spatial,T*in_c), filter (spatial,in_c,T*out_c), group per tensor component
        T = d ** (k + kf)
        Bn, Cn, On = A.shape[0], A.shape[1], F.shape[0]
        Ae = ref.outer(d, A, np.ones(A.shape[: 2 + d] + (d,) * kf, dtype=np.int64), lead=2)  # (B,C,sp,(d,)*(k+kf))
        Fe = np.multiply.outer(np.ones((d,) * k, dtype=np.int64), F)  # ((d,)*k, O,C,fs,(d,)*kf)
        Fe = np.moveaxis(Fe, list(range(k)), list(range(2 + d, 2 + d + k)))  # (O,C,fs,(d,)*k,(d,)*kf)
        img_r = np.moveaxis(Ae.reshape((Bn, Cn) + sp + (T,)), 1, -1).reshape((Bn,) + sp + (T * Cn,))
        fil_r = np.moveaxis(np.moveaxis(Fe.reshape((On, Cn) + fs + (T,)), 0, -1), 0, d).reshape(fs + (Cn, T * On))
        rav = np.asarray(geom.convolve_ravel(d, jnp.asarray(img_r, dtype=jnp.float32), jnp.asarray(fil_r, dtype=jnp.float32), **kw))
        exp_r = np.moveaxis(exp.reshape((Bn, On) + osz + (T,)), 1, -1).reshape((Bn,) + osz + (T * On,))
        if not exact_equal(rav, exp_r):
            return result(viol("C04/convolve_ravel/definition", first_diff(rav, exp_r)), nontrivial, key, labels)
        evals += 1

        # single image / single filter through the class
        tor = rkw["is_torus"]
        img = geom.GeometricImage(jnp.asarray(A[0, 0], dtype=jnp.float32), 0, d, tor)
        fil = geom.GeometricImage(jnp.asarray(F[0, 0], dtype=jnp.float32), 0, d, tor)
        res = img.convolve_with(fil, kw["stride"], kw["padding"], kw["lhs_dilation"], kw["rhs_dilation"])
        exp1 = ref.convolve(d, A[:1, :1], F[:1, :1], **rkw)[0, 0]
        if not exact_equal(np.asarray(res.data), exp1):
            return result(viol("C04/convolve_with/definition", first_diff(np.asarray(res.data), exp1)), nontrivial, key, labels)
        if res.k != k + kf or res.D != d:
            return result(viol("C04/convolve_with/type", f"k={res.k} expected {k+kf}"), nontrivial, key, labels)
        evals += 1
    return result(None, nontrivial, key, labels, evals)
