"""C17 — mini-batching is an aligned partition of the data set."""
import numpy as np
from hypothesis import strategies as st

import jax
import jax.numpy as jnp
import jax.random as random
import ginjax.geometric as geom
import ginjax.ml as ml

from gv import gen
from gv.common import exact_equal, result, viol

PID = "C17"
TECHNIQUE = "property-based testing with index-carrying samples; the oracle is a partition/alignment predicate over everything get_batches returns (exact)"
RULE = (
    "Hypothesis draws L in 1..24 (one case in six: 25..700), B in 1..L, a key (None or PRNGKey(seed)), 1-3 co-batched multi-images with different type sets, channel counts and "
    "storage orders, d in {1,2}, and a device count n dividing B (the function only uses len(devices); lists of the single CPU device simulate n devices). "
    "Sample i carries the value i (plus a type/channel/pixel code) in every block. Predicate: floor(L/B) batches per multi-image; each batch block has "
    "shape (n, B/n, ...); flattening the device axis restores the batch; the index vector read from any block of any co-batched multi-image is the same; "
    "every index occurs at most once per epoch; with key None the indices are 0..floor(L/B)*B-1 in order; every batched sample equals the original sample "
    "of that index (other axes untouched); two different keys give permutations drawn from range(L). Non-trivial: B does not divide L or a key is given; distinct key = all parameters."
)
ASSUMPTIONS = ["real multi-device execution is not available on this host; only the reshaping logic of the device axis is exercised"]
CONFIG = {
    "quick": {"examples": 1280, "shards": 16, "shrink_s": 40, "time_budget_s": 240},
    "thorough": {"examples": 80000, "shards": 16, "shrink_s": 200, "time_budget_s": 1500},
}


def draw_case(data, tier):
    # mostly small data sets; one in six is large (a threshold such as "more than 512 samples" must be reachable)
    L = data.draw(st.integers(1, 24), label="L") if data.draw(st.integers(0, 5), label="large_L") else data.draw(st.integers(25, 700), label="L_large")
    B = data.draw(st.integers(1, L), label="B")
    divs = [n for n in range(1, min(B, 16) + 1) if B % n == 0]
    ndev = data.draw(st.sampled_from(divs), label="ndev")
    d = data.draw(st.sampled_from([1, 2]), label="d")
    shape, _ = gen.draw_shape(data, d, 1, 2, classes=("free",))
    nmi = data.draw(st.integers(1, 3), label="n_multi_images")
    sigs = [gen.draw_signature(data, d, kmax=1, min_types=1, max_types=3, cmax=2) for _ in range(nmi)]
    key = data.draw(st.one_of(st.none(), st.integers(0, 2**16)), label="key")
    return {"L": L, "B": B, "ndev": ndev, "d": d, "shape": list(shape), "sigs": sigs, "key": key,
            "bare": data.draw(st.booleans(), label="pass_bare_multi_image") and nmi == 1, "devices_none": data.draw(st.booleans(), label="devices_none") and ndev == 1}


def run_case(case):
    L, B, ndev, d, shape = case["L"], case["B"], case["ndev"], case["d"], tuple(case["shape"])
    labels = ["L_large" if L > 24 else "L_small", "key_none" if case["key"] is None else "key_given", "divisible" if L % B == 0 else "remainder", f"ndev{min(ndev, 4)}", f"n_mi{len(case['sigs'])}", f"d{d}"]
    key = [L, B, ndev, d, shape, case["sigs"], case["key"] is None, case["bare"]]
    nontrivial = (L % B != 0) or case["key"] is not None
    originals = []
    mis = []
    for mi_idx, sig in enumerate(case["sigs"]):
        blocks = {}
        for ti, (t, c) in enumerate(sig):
            t = (int(t[0]), int(t[1]))
            per = gen.ident_array((c,) + shape + (d,) * t[0], start=0) + 64 * (ti + 4 * mi_idx)
            arr = np.stack([i * 1024 + per for i in range(L)])
            blocks[t] = arr
        originals.append(blocks)
        mis.append(geom.MultiImage({t: jnp.asarray(a, dtype=jnp.float32) for t, a in blocks.items()}, d, (True,) * d))
    devices = None if case["devices_none"] else [jax.devices()[0]] * ndev
    rk = None if case["key"] is None else random.PRNGKey(case["key"])
    arg = mis[0] if case["bare"] else tuple(mis)
    # call history: the other mode is called first with the same (L, B) (anything memoised per data-set size shows here)
    ml.get_batches(arg, B, random.PRNGKey(17) if rk is None else None, devices)
    batches = ml.get_batches(arg, B, rk, devices)
    nb = L // B
    if len(batches) != len(mis):
        return result(viol("C17/structure", f"{len(batches)} lists for {len(mis)} multi-images"), nontrivial, key, labels)
    seen = []
    for j in range(len(mis)):
        if len(batches[j]) != nb:
            return result(viol("C17/batch-count", f"{len(batches[j])} batches, expected floor({L}/{B})={nb}"), nontrivial, key, labels)
    for bi in range(nb):
        ref_idx = None
        for j, blocks in enumerate(originals):
            bm = batches[j][bi]
            if list(bm.keys()) != list(blocks.keys()):
                return result(viol("C17/types", f"batch types {list(bm.keys())} != {list(blocks.keys())}"), nontrivial, key, labels)
            for t, orig in blocks.items():
                got = np.asarray(bm[t])
                if got.shape != (ndev, B // ndev) + orig.shape[1:]:
                    return result(viol("C17/device-shape", f"block {t} shape {got.shape}, expected {(ndev, B // ndev) + orig.shape[1:]}"), nontrivial, key, labels)
                flat = got.reshape((B,) + orig.shape[1:])
                idx = (flat.reshape(B, -1)[:, 0] // 1024).astype(int)
                if ref_idx is None:
                    ref_idx = idx
                elif not np.array_equal(idx, ref_idx):
                    return result(viol("C17/alignment", f"batch {bi}: multi-image {j} type {t} sliced with indices {idx.tolist()} but another block used {ref_idx.tolist()}"), nontrivial, key, labels)
                if np.any(idx < 0) or np.any(idx >= L):
                    return result(viol("C17/index-range", f"indices {idx.tolist()}"), nontrivial, key, labels)
                if not exact_equal(flat, orig[idx]):
                    return result(viol("C17/sample-content", f"batch {bi} type {t}: a batched sample differs from the original sample of its index"), nontrivial, key, labels)
        seen += ref_idx.tolist()
    if len(set(seen)) != len(seen):
        return result(viol("C17/duplicates", f"indices used more than once in an epoch: {sorted(seen)}"), nontrivial, key, labels)
    if case["key"] is None and seen != list(range(nb * B)):
        return result(viol("C17/identity-order", f"no key: order {seen}"), nontrivial, key, labels)
    return result(None, nontrivial, key, labels, evals=max(nb, 1))
