"""C16 — autoregressive rollout feeds each prediction back correctly."""
import numpy as np
from hypothesis import strategies as st

import jax.numpy as jnp
import ginjax.geometric as geom
import ginjax.ml as ml

from gv import gen
from gv.common import exact_equal, first_diff, result, viol

PID = "C16"
TECHNIQUE = "property-based testing with generated history-sensitive integer models against an explicit sliding-window reference rollout (exact)"
RULE = (
    "Hypothesis draws rollout length n in 1..5, past steps 1..4, an input signature in a drawn storage order whose types are dynamic (1..3 channels), "
    "dynamic with 1..2 constant fields, or constant-only, d in {2,3}, small shapes, and a model from a family of history-sensitive maps: for every "
    "output type/channel an integer linear form over all input channels of that type with pairwise distinct coefficients per (channel, past position) and per "
    "constant, reduced modulo the prime 1021 (so any permutation of the window or displacement of a constant changes the output; values stay exact). "
    "autoregressive_map's output (n predictions per channel in time order, channel-major) and every model input along the way (oldest dropped, prediction "
    "appended, constants unchanged in place, type order unchanged) are compared exactly with an explicit reference loop over Python lists; "
    "autoregressive_step is also checked on its own. Non-trivial: n>=2 and (past>=2 or constants present); distinct key = all parameters."
)
ASSUMPTIONS = ["the model computes in int64 and returns values < 1021, so float32 storage is exact", "models output one future step (the library asserts future_steps == 1)"]
CONFIG = {
    "quick": {"examples": 1280, "shards": 16, "shrink_s": 40, "time_budget_s": 240},
    "thorough": {"examples": 140000, "shards": 16, "shrink_s": 200, "time_budget_s": 1500},
}
P = 1021


def draw_case(data, tier):
    d = data.draw(st.sampled_from([2, 2, 3]), label="d")
    shape, _ = gen.draw_shape(data, d, 1, 3 if d == 2 else 2, classes=("cubic", "free"))
    long_run = data.draw(st.integers(0, 7), label="long_run") == 0
    n = data.draw(st.integers(6, 14), label="n_long") if long_run else data.draw(st.integers(1, 5), label="n")
    past = data.draw(st.integers(1, 6 if long_run else 4), label="past")
    sig = gen.draw_signature(data, d, kmax=1, min_types=1, max_types=4, cmax=3)
    entries = []
    have_dyn = False
    for t, c in sig:
        kind = data.draw(st.sampled_from(["dyn", "dyn", "dyn+const", "const"]), label="kind")
        nc = data.draw(st.integers(1, 2), label="nconst") if kind != "dyn" else 0
        if kind == "const":
            entries.append({"type": t, "c": 0, "nconst": nc})
        else:
            have_dyn = True
            entries.append({"type": t, "c": c, "nconst": nc})
    if not have_dyn:
        entries[0]["c"] = 1
    return {"d": d, "shape": list(shape), "n": n, "past": past, "entries": entries, "seed": data.draw(st.integers(0, 9999), label="seed"),
            "out_order_rev": data.draw(st.booleans(), label="model_output_reversed"),
            "explicit_zero": data.draw(st.booleans(), label="explicit_zero_entries")}


class _Model:
    """History-sensitive integer model; records the inputs it is called with."""

    def __init__(self, case, coefW, coefC):
        self.case, self.coefW, self.coefC = case, coefW, coefC
        self.calls = []

    def __call__(self, x, aux=None):
        past = self.case["past"]
        self.calls.append((list(x.keys()), {t: np.asarray(v) for t, v in x.items()}))
        out = {}
        ents = [e for e in self.case["entries"] if e["c"] > 0]
        if self.case["out_order_rev"]:
            ents = ents[::-1]
        for e in ents:
            t = tuple(e["type"])
            blk = np.asarray(x[t]).astype(np.int64)
            c, nc = e["c"], e["nconst"]
            preds = []
            for co in range(c):
                acc = 0
                for ci in range(c):
                    for j in range(past):
                        acc = acc + self.coefW[t][co][ci][j] * blk[ci * past + j]
                for m in range(nc):
                    acc = acc + self.coefC[t][co][m] * blk[c * past + m]
                preds.append(acc % P)
            out[t] = jnp.asarray(np.stack(preds), dtype=jnp.float32)
        return geom.MultiImage(out, x.D, x.is_torus), aux


def run_case(case):
    d, shape, n, past = case["d"], tuple(case["shape"]), case["n"], case["past"]
    rng = np.random.default_rng(case["seed"])
    entries = case["entries"]
    labels = [f"d{d}", f"n{n}", f"past{past}", "const_only_type" if any(e["c"] == 0 for e in entries) else "no_const_only",
              "has_const" if any(e["nconst"] for e in entries) else "no_const", "out_rev" if case["out_order_rev"] else "out_same"]
    key = [d, shape, n, past, entries, case["out_order_rev"]]
    nontrivial = n >= 2 and (past >= 2 or any(e["nconst"] for e in entries))
    coefW, coefC, window, consts = {}, {}, {}, {}
    for e in entries:
        t = tuple(e["type"])
        c, nc = e["c"], e["nconst"]
        ncoef = c * past + nc
        coefW[t], coefC[t] = [], []
        for co in range(c):
            vals = rng.permutation(np.arange(1, ncoef + 6))[:ncoef]  # pairwise distinct, non-zero
            coefW[t].append([[int(vals[ci * past + j]) for j in range(past)] for ci in range(c)])
            coefC[t].append([int(vals[c * past + m]) for m in range(nc)])
        window[t] = [[rng.integers(0, P, size=shape + (d,) * t[0]).astype(np.int64) for _ in range(past)] for _ in range(c)]
        consts[t] = [rng.integers(0, P, size=shape + (d,) * t[0]).astype(np.int64) for _ in range(nc)]

    def layout(win, con):
        """documented layout: per type channel-major, time-minor, constants after the dynamic channels; input key order."""
        out = {}
        for e in entries:
            t = tuple(e["type"])
            frames = [fr for ch in win[t] for fr in ch] + list(con[t])
            out[t] = np.stack(frames)
        return out

    x0 = layout(window, consts)
    tor = tuple([True] + [False] * (d - 1))
    x = geom.MultiImage({t: jnp.asarray(a, dtype=jnp.float32) for t, a in x0.items()}, d, tor)
    const_dict = {tuple(e["type"]): e["nconst"] for e in entries if e["nconst"] > 0}
    if case.get("explicit_zero"):
        # a type without constant fields may be listed with an explicit 0 (concat_inverse treats a missing key and 0 alike)
        for e in entries:
            const_dict.setdefault(tuple(e["type"]), 0)
        labels.append("explicit_zero_entries")
    model = _Model(case, coefW, coefC)
    out, _ = ml.autoregressive_map(model, x, None, past, n, const_dict)

    # ---- reference rollout
    win = {t: [list(ch) for ch in chans] for t, chans in window.items()}
    preds = {tuple(e["type"]): [[] for _ in range(e["c"])] for e in entries if e["c"] > 0}
    exp_inputs = []
    for step in range(n):
        exp_inputs.append(layout(win, consts))
        new = {}
        for e in entries:
            t = tuple(e["type"])
            c, nc = e["c"], e["nconst"]
            new[t] = []
            for co in range(c):
                acc = 0
                for ci in range(c):
                    for j in range(past):
                        acc = acc + coefW[t][co][ci][j] * win[t][ci][j]
                for m in range(nc):
                    acc = acc + coefC[t][co][m] * consts[t][m]
                new[t].append(acc % P)
        for e in entries:
            t = tuple(e["type"])
            for co in range(e["c"]):
                preds[t][co].append(new[t][co])
                win[t][co] = win[t][co][1:] + [new[t][co]]

    if len(model.calls) != n:
        return result(viol("C16/call-count", f"model called {len(model.calls)} times for n={n}"), nontrivial, key, labels)
    in_order = [tuple(e["type"]) for e in entries]
    for step, (keys, blocks) in enumerate(model.calls):
        if keys != in_order:
            return result(viol("C16/step-input/type-order", f"step {step}: input type order {keys} != {in_order}"), nontrivial, key, labels)
        for t in in_order:
            if not exact_equal(blocks[t], exp_inputs[step][t]):
                return result(viol("C16/step-input/window", f"step {step} type {t} (past={past}, nconst={const_dict.get(t, 0)}): {first_diff(blocks[t], exp_inputs[step][t])}"), nontrivial, key, labels)
    if set(out.keys()) != set(preds.keys()):
        return result(viol("C16/output/types", f"{list(out.keys())} expected {list(preds.keys())}"), nontrivial, key, labels)
    for t, chans in preds.items():
        exp = np.stack([fr for ch in chans for fr in ch])
        if not exact_equal(np.asarray(out[t]), exp):
            return result(viol("C16/output/order", f"type {t} n={n}: {first_diff(np.asarray(out[t]), exp)}"), nontrivial, key, labels)
    if out.D != d or tuple(out.is_torus) != tor:
        return result(viol("C16/output/metadata", f"D={out.D} torus={out.is_torus}"), nontrivial, key, labels)

    # ---- autoregressive_step on its own, with an arbitrary prediction
    pred = {t: np.stack([rng.integers(0, P, size=shape + (d,) * t[0]) for _ in range(len(chans))]) for t, chans in preds.items()}
    pm = geom.MultiImage({t: jnp.asarray(a, dtype=jnp.float32) for t, a in (reversed(list(pred.items())) if case["out_order_rev"] else pred.items())}, d, tor)
    nxt = ml.autoregressive_step(x, pm, past, const_dict)
    win1 = {t: [list(ch[1:]) + [pred[t][ci]] for ci, ch in enumerate(chans)] for t, chans in window.items()}
    exp1 = layout(win1, consts)
    if list(nxt.keys()) != in_order:
        return result(viol("C16/step/type-order", f"{list(nxt.keys())} != {in_order}"), nontrivial, key, labels)
    for t in in_order:
        if not exact_equal(np.asarray(nxt[t]), exp1[t]):
            return result(viol("C16/step/window", f"type {t}: {first_diff(np.asarray(nxt[t]), exp1[t])}"), nontrivial, key, labels)
    return result(None, nontrivial, key, labels, evals=n)
