"""C05 — image algebra is type-sound: declared (k, parity) is how results transform."""
import itertools as it

import numpy as np
from hypothesis import strategies as st

import jax.numpy as jnp
import ginjax.geometric as geom

from gv import gen
from gv.common import HarnessError, exact_equal, first_diff, rel_defect, result, viol
from gv.ref import core as ref

PID = "C05"
TECHNIQUE = "model-based program generation (Hypothesis draws well-typed expression programs with a symbolic type/magnitude model as precondition) + metamorphic oracle: the program evaluated on g-transformed leaves must equal the reference action, with the declared type, on every intermediate; exact integer arithmetic"
RULE = (
    "A program is a sequence of <= 8 (quick) / 12 (thorough) operations drawn from {add, sub, scalar multiple, tensor product, transpose, "
    "contract, multicontract, levi_civita_contract, convolve_with(filter), norm}, each enabled by a precondition on the symbolic pool of "
    "(k,parity,magnitude bound) entries (construction, not rejection), over 1-3 integer leaf images (d in {2,3}, common possibly non-square shape, "
    "leaf k<=3 (d=2) / k<=2 (d=3), intermediate orders up to 6 / 4, both parities, per-axis torus flags) and 0-2 leaf filters. For a set of group elements (all 8 in d=2; generators of B_3 plus "
    "3 drawn elements in d=3) a shadow pool is evaluated from the reference-transformed leaves; after every step every shadow entry must equal the "
    "reference action with the entry's *declared* (k,parity) applied to the original entry, with transported extents and flags, and the declared type "
    "must equal the type algebra of the statement. Exact comparison; relative 1e-4 below a norm node. Side laws: contraction pair order / order inside "
    "a pair, tensor-product commutativity up to block transposition. Non-trivial: >=2 operations incl. one that changes order or parity; distinct key = program skeleton + types."
)
ASSUMPTIONS = [
    "float32 exact below 2^24: the symbolic magnitude bound disables operations that could exceed 2^22 and the run asserts the real bound",
    "convolutions inside programs are shape-preserving (odd square filter, TORUS/SAME-by-default padding, unit stride) so that results stay combinable",
]
CONFIG = {
    "quick": {"examples": 960, "shards": 16, "shrink_s": 40, "time_budget_s": 240},
    "thorough": {"examples": 72000, "shards": 16, "shrink_s": 200, "time_budget_s": 1500},
}
LIMIT = 2**22
_GEN3 = None


def _gens3():
    global _GEN3
    if _GEN3 is None:
        ops = gen.ops(3)
        gens = ref.generators(ops[1:], 3)  # skip identity
        _GEN3 = [i for i, g in enumerate(ops) if any(ref.gkey(g) == ref.gkey(h) for h in gens)]
    return _GEN3


def draw_case(data, tier):
    d = data.draw(st.sampled_from([2, 2, 3]), label="d")
    kmax = 3 if d == 2 else 2
    kcap = 6 if d == 2 else 4  # intermediate tensor orders up to 6 (d=2) / 4 (d=3): three contraction pairs become possible
    shape, _ = gen.draw_shape(data, d, 2, 4 if d == 2 else 3, classes=("cubic", "distinct", "free"))
    torus = gen.draw_torus(data, d)
    nleaf = data.draw(st.integers(1, 3), label="nleaf")
    leaves = []
    for _ in range(nleaf):
        k, p = gen.draw_type(data, d, kmax)
        leaves.append({"k": k, "p": p, "praw": p + 2 * data.draw(st.sampled_from([0, 0, 1, 2, -1]), label="praw"), "seed": data.draw(st.integers(0, 9999), label="seed")})
    nfil = data.draw(st.integers(0, 2), label="nfil")
    filters = []
    for _ in range(nfil):
        k, p = gen.draw_type(data, d, 2 if d == 2 else 1)
        filters.append({"k": k, "p": p, "M": data.draw(st.sampled_from([1, 3]), label="M"), "seed": data.draw(st.integers(0, 9999), label="fseed")})
    # on cubic shapes the library's Kronecker-delta image (an invariant (2,0) tensor field) may join the leaves
    if len(set(shape)) == 1 and data.draw(st.integers(0, 3), label="kron_leaf") == 0:
        leaves.append({"k": 2, "p": 0, "praw": 0, "seed": 0, "kron": True})
    deep = d == 2 and data.draw(st.integers(0, 7), label="deep_contraction") == 0
    if deep:
        # template: an order-6 tensor (product of two order-3 leaves) contracted over three pairs in a drawn order
        leaves = [{"k": 3, "p": data.draw(st.integers(0, 1)), "praw": 0, "seed": data.draw(st.integers(0, 9999))} for _ in range(2)]
        for l in leaves:
            l["praw"] = l["p"]
    pool = [{"k": l["k"], "p": l["p"], "b": 2, "norm": False} for l in leaves]
    steps = data.draw(st.integers(1, 8 if tier == "quick" else 12), label="nsteps")
    prog = []
    if deep:
        idx = list(data.draw(st.permutations(list(range(6))), label="deep_idx"))
        prog.append({"op": "mul", "a": 0, "b": 1})
        pool.append({"k": 6, "p": (leaves[0]["p"] + leaves[1]["p"]) % 2, "b": 4, "norm": False})
        prog.append({"op": "multicontract", "a": len(pool) - 1, "pairs": [[idx[0], idx[1]], [idx[2], idx[3]], [idx[4], idx[5]]]})
        pool.append({"k": 0, "p": pool[-1]["p"], "b": 32, "norm": False})
    for _ in range(steps):
        enabled = ["scalar"]
        same = [(i, j) for i in range(len(pool)) for j in range(len(pool)) if (pool[i]["k"], pool[i]["p"]) == (pool[j]["k"], pool[j]["p"]) and pool[i]["b"] + pool[j]["b"] < LIMIT]
        if same:
            enabled += ["add", "sub"]
        prods = [(i, j) for i in range(len(pool)) for j in range(len(pool)) if pool[i]["k"] + pool[j]["k"] <= kcap and pool[i]["b"] * pool[j]["b"] < LIMIT]
        if prods:
            enabled += ["mul", "mul"]
        k2 = [i for i in range(len(pool)) if pool[i]["k"] >= 2 and pool[i]["b"] * d * d < LIMIT]
        if k2:
            enabled += ["transpose", "contract", "multicontract"]
        lc = [i for i in range(len(pool)) if pool[i]["k"] >= d - 1 and pool[i]["b"] * d ** (d - 1) < LIMIT]
        if lc:
            enabled += ["levi_civita", "levi_civita"]
        convs = [(i, f) for i in range(len(pool)) for f in range(len(filters)) if pool[i]["k"] + filters[f]["k"] <= kcap and pool[i]["b"] * 2 * filters[f]["M"] ** d < LIMIT]
        if convs:
            enabled += ["conv", "conv"]
        nrm = [i for i in range(len(pool)) if not pool[i]["norm"]]
        if nrm:
            enabled.append("norm")
        op = data.draw(st.sampled_from(enabled), label="op")
        if op in ("add", "sub"):
            i, j = data.draw(st.sampled_from(same), label="operands")
            prog.append({"op": op, "a": i, "b": j})
            pool.append({"k": pool[i]["k"], "p": pool[i]["p"], "b": pool[i]["b"] + pool[j]["b"], "norm": pool[i]["norm"] or pool[j]["norm"]})
        elif op == "scalar":
            i = data.draw(st.integers(0, len(pool) - 1), label="operand")
            c = data.draw(st.sampled_from([-2, -1, 2, 3]), label="c")
            if pool[i]["b"] * 3 >= LIMIT:
                c = -1
            prog.append({"op": op, "a": i, "c": c})
            pool.append({"k": pool[i]["k"], "p": pool[i]["p"], "b": pool[i]["b"] * abs(c), "norm": pool[i]["norm"]})
        elif op == "mul":
            i, j = data.draw(st.sampled_from(prods), label="operands")
            prog.append({"op": op, "a": i, "b": j})
            pool.append({"k": pool[i]["k"] + pool[j]["k"], "p": (pool[i]["p"] + pool[j]["p"]) % 2, "b": pool[i]["b"] * pool[j]["b"], "norm": pool[i]["norm"] or pool[j]["norm"]})
        elif op == "transpose":
            i = data.draw(st.sampled_from(k2), label="operand")
            perm = list(data.draw(st.permutations(list(range(pool[i]["k"]))), label="perm"))
            prog.append({"op": op, "a": i, "perm": perm})
            pool.append(dict(pool[i]))
        elif op == "contract":
            i = data.draw(st.sampled_from(k2), label="operand")
            ij = list(data.draw(st.permutations(list(range(pool[i]["k"]))), label="ij"))[:2]
            prog.append({"op": op, "a": i, "i": ij[0], "j": ij[1]})
            pool.append({"k": pool[i]["k"] - 2, "p": pool[i]["p"], "b": pool[i]["b"] * d, "norm": pool[i]["norm"]})
        elif op == "multicontract":
            i = data.draw(st.sampled_from(k2), label="operand")
            idx = list(data.draw(st.permutations(list(range(pool[i]["k"]))), label="idx"))
            npairs = data.draw(st.integers(1, pool[i]["k"] // 2), label="npairs")
            pairs = [[idx[2 * m], idx[2 * m + 1]] for m in range(npairs)]
            prog.append({"op": op, "a": i, "pairs": pairs})
            pool.append({"k": pool[i]["k"] - 2 * npairs, "p": pool[i]["p"], "b": pool[i]["b"] * d**npairs, "norm": pool[i]["norm"]})
        elif op == "levi_civita":
            i = data.draw(st.sampled_from(lc), label="operand")
            idx = list(data.draw(st.permutations(list(range(pool[i]["k"]))), label="idx"))[: d - 1]
            prog.append({"op": op, "a": i, "idx": idx})
            pool.append({"k": pool[i]["k"] - d + 2, "p": (pool[i]["p"] + 1) % 2, "b": pool[i]["b"] * d ** (d - 1), "norm": pool[i]["norm"]})
        elif op == "conv":
            i, f = data.draw(st.sampled_from(convs), label="operands")
            rhs = data.draw(st.sampled_from([1, 1, 2]), label="rhs")
            prog.append({"op": op, "a": i, "f": f, "rhs": rhs})
            pool.append({"k": pool[i]["k"] + filters[f]["k"], "p": (pool[i]["p"] + filters[f]["p"]) % 2, "b": pool[i]["b"] * 2 * filters[f]["M"] ** d, "norm": pool[i]["norm"]})
        elif op == "norm":
            i = data.draw(st.sampled_from(nrm), label="operand")
            prog.append({"op": op, "a": i})
            pool.append({"k": 0, "p": 0, "b": 4096, "norm": True})
    if d == 2:
        gs = list(range(8))
    else:
        gs = sorted(set(_gens3() + [gen.draw_g(data, 3, "g") for _ in range(3)]))
    return {"d": d, "shape": list(shape), "torus": list(torus), "leaves": leaves, "filters": filters, "prog": prog, "gs": gs}


def _apply(d, pool, filters, step):
    op = step["op"]
    a = pool[step["a"]]
    if op == "add":
        return a + pool[step["b"]]
    if op == "sub":
        return a - pool[step["b"]]
    if op == "scalar":
        return a * step["c"]
    if op == "mul":
        return a * pool[step["b"]]
    if op == "transpose":
        return a.transpose(tuple(step["perm"]))
    if op == "contract":
        return a.contract(step["i"], step["j"])
    if op == "multicontract":
        return a.multicontract(tuple(tuple(p) for p in step["pairs"]))
    if op == "levi_civita":
        idx = tuple(step["idx"])
        return a.levi_civita_contract(idx if len(idx) > 1 else idx[0])
    if op == "conv":
        return a.convolve_with(filters[step["f"]], rhs_dilation=step["rhs"])
    if op == "norm":
        return a.norm()
    raise HarnessError("unknown op " + op)


def _model_type(d, types, ftypes, step):
    op = step["op"]
    k, p, n = types[step["a"]]
    if op in ("add", "sub", "scalar", "transpose"):
        n2 = n or (types[step["b"]][2] if op in ("add", "sub") else False)
        return (k, p, n2)
    if op == "mul":
        k2, p2, n2 = types[step["b"]]
        return (k + k2, (p + p2) % 2, n or n2)
    if op == "contract":
        return (k - 2, p, n)
    if op == "multicontract":
        return (k - 2 * len(step["pairs"]), p, n)
    if op == "levi_civita":
        return (k - d + 2, (p + 1) % 2, n)
    if op == "conv":
        fk, fp = ftypes[step["f"]]
        return (k + fk, (p + fp) % 2, n)
    if op == "norm":
        return (0, 0, True)


def run_case(case):
    d, shape, torus = case["d"], tuple(case["shape"]), tuple(bool(t) for t in case["torus"])
    ops = gen.ops(d)
    prog = case["prog"]
    opnames = [s["op"] for s in prog]
    labels = [f"d{d}", "shape_" + gen.shape_class(shape), "torus_mixed" if len(set(torus)) > 1 else "torus_uniform", f"steps{min(len(prog), 9)}"] + ["op_" + o for o in set(opnames)]
    changing = {"mul", "contract", "multicontract", "levi_civita", "conv", "norm"}
    nontrivial = len(prog) >= 2 and any(o in changing for o in opnames)
    key = [d, shape, torus, [(l["k"], l["p"]) for l in case["leaves"]], [(f["k"], f["p"], f["M"]) for f in case["filters"]], prog]

    leaf_data = [np.asarray(geom.get_kronecker_delta_image(shape[0], d, 2).data).astype(np.int64) if l.get("kron") else gen.rng_ints(l["seed"], shape + (d,) * l["k"], 2)
                 for l in case["leaves"]]
    for l, a in zip(case["leaves"], leaf_data):
        if l.get("kron"):
            labels.append("kronecker_leaf")
            expect = np.zeros(shape + (d, d), dtype=np.int64)
            for i in range(d):
                expect[..., i, i] = 1
            if not exact_equal(a, expect):
                return result(viol("C05/kronecker-delta-image", "get_kronecker_delta_image(N, D, 2) is not the identity matrix in every pixel"), True, key, labels)
    fil_data = [gen.rng_ints(f["seed"] + 77, (f["M"],) * d + (d,) * f["k"], 1) for f in case["filters"]]
    for fd in fil_data:
        if not np.any(fd):
            fd.reshape(-1)[0] = 1

    def mk(arr, p, tor):
        return geom.GeometricImage(jnp.asarray(arr, dtype=jnp.float32), p, d, tor)

    pool = [mk(a, l.get("praw", l["p"]), torus) for a, l in zip(leaf_data, case["leaves"])]
    for im, l in zip(pool, case["leaves"]):
        if im.parity != l["p"] or im.k != l["k"]:
            return result(viol("C05/declared-type/constructor", f"GeometricImage(parity={l.get('praw')}) declares parity {im.parity}, expected {l['p']}"), True, key, labels)
    fpool = [geom.GeometricFilter(jnp.asarray(a, dtype=jnp.float32), f["p"], d, torus) for a, f in zip(fil_data, case["filters"])]
    shadows = {}
    for gi in case["gs"]:
        g = ops[gi]
        tor_g = ref.transport(torus, g)
        shadows[gi] = (
            [mk(ref.action(d, a, l["p"], g), l["p"], tor_g) for a, l in zip(leaf_data, case["leaves"])],
            [geom.GeometricFilter(jnp.asarray(ref.action(d, a, f["p"], g), dtype=jnp.float32), f["p"], d, tor_g) for a, f in zip(fil_data, case["filters"])],
        )
    types = [(l["k"], l["p"], False) for l in case["leaves"]]
    ftypes = [(f["k"], f["p"]) for f in case["filters"]]
    evals = 0
    for si, step in enumerate(prog):
        out = _apply(d, pool, fpool, step)
        pool.append(out)
        mk_, mp_, under_norm = _model_type(d, types, ftypes, step)
        types.append((mk_, mp_, under_norm))
        od = np.asarray(out.data)
        if not under_norm and od.size and np.max(np.abs(od)) >= 2**24:
            raise HarnessError("magnitude bound exceeded in program")
        if (out.k, out.parity) != (mk_, mp_):
            return result(viol(f"C05/declared-type/{step['op']}", f"step {si} {step}: declared (k,parity)=({out.k},{out.parity}), type algebra gives ({mk_},{mp_})"), nontrivial, key, labels, evals)
        if out.D != d or tuple(out.spatial_dims) != shape or tuple(out.is_torus) != torus:
            return result(viol(f"C05/metadata/{step['op']}", f"step {si} {step}: D={out.D} dims={out.spatial_dims} flags={out.is_torus}"), nontrivial, key, labels, evals)
        for gi in case["gs"]:
            g = ops[gi]
            spool, sfil = shadows[gi]
            sout = _apply(d, spool, sfil, step)
            spool.append(sout)
            evals += 1
            exp = ref.action(d, od, out.parity, g)
            got = np.asarray(sout.data)
            ok = exact_equal(got, exp) if not under_norm else rel_defect(got, exp) < 1e-4
            if not ok:
                return result(viol(f"C05/transformation-law/{step['op']}", f"step {si} {step} (program {opnames[:si+1]}), g#{gi}={g.tolist()} det={ref.det(g)}: result does not transform with its declared type (k={out.k},parity={out.parity}): {first_diff(got, exp)}", g=gi),
                              nontrivial, key, labels, evals)
            if (sout.k, sout.parity) != (out.k, out.parity) or tuple(sout.spatial_dims) != ref.transport(shape, g) or tuple(sout.is_torus) != ref.transport(torus, g):
                return result(viol(f"C05/shadow-metadata/{step['op']}", f"step {si}, g#{gi}: {(sout.k, sout.parity, sout.spatial_dims, sout.is_torus)}"), nontrivial, key, labels, evals)
        # side laws
        a = pool[step["a"]]
        if step["op"] == "multicontract":
            pairs = [tuple(p) for p in step["pairs"]]
            alt = tuple((j, i) for i, j in reversed(pairs))
            o2 = a.multicontract(alt)
            if not exact_equal(np.asarray(o2.data), od) and not under_norm:
                return result(viol("C05/contraction-order", f"multicontract{tuple(pairs)} != multicontract{alt}"), nontrivial, key, labels, evals)
            o3 = a
            removed = []
            for i, j in pairs:  # serial single contractions with re-indexing
                ii = i - sum(1 for r in removed if r < i)
                jj = j - sum(1 for r in removed if r < j)
                o3 = o3.contract(ii, jj)
                removed += [i, j]
            if not under_norm and not exact_equal(np.asarray(o3.data), od):
                return result(viol("C05/contraction-serial", f"serial contract != multicontract{tuple(pairs)}"), nontrivial, key, labels, evals)
        if step["op"] == "contract" and not under_norm:
            o2 = a.contract(step["j"], step["i"])
            if not exact_equal(np.asarray(o2.data), od):
                return result(viol("C05/contraction-order", "contract(i,j) != contract(j,i)"), nontrivial, key, labels, evals)
        if step["op"] == "mul" and not under_norm:
            b = pool[step["b"]]
            ba = b * a
            perm = tuple(range(b.k, b.k + a.k)) + tuple(range(b.k))
            if not exact_equal(np.asarray(ba.transpose(perm).data), od):
                return result(viol("C05/product-commutativity", "(A*B) != (B*A).transpose(block swap)"), nontrivial, key, labels, evals)
    return result(None, nontrivial, key, labels, max(evals, 1))
