"""C13 — re-layouts and serialisations of images and models are lossless round trips."""
import os

import numpy as np
from hypothesis import strategies as st

import jax
import jax.numpy as jnp
import ginjax.geometric as geom

from gv import gen
from gv.common import HarnessError, VERIF_ROOT, exact_equal, first_diff, result, viol

PID = "C13"
TECHNIQUE = "model-based stateful testing: Hypothesis draws chains of re-layout operations with a symbolic shape model as precondition; every inverse must restore the recorded state bit for bit (identifier values), plus save/load round trips of generated model configurations"
RULE = (
    "A case draws a multi-image (1-4 types with k<=3, channels 1..4 in a drawn storage order, d in {1,2,3}, non-square extents, 0-3 leading axes of "
    "pairwise distinct sizes, identifier values: every entry a distinct integer) and a chain of <= 8 steps. Push steps (to_scalar_multi_image, "
    "concat with a second multi-image along a drawn leading axis, expand(axis,size), reshape_pmap(devices)) are later undone in LIFO order by their inverses "
    "(from_scalar_multi_image(signature), concat_inverse(signature on that axis), combine_axes / merge_axes, merge_axes([0,1])); immediate steps "
    "(to_vector/from_vector, to_images/from_images, copy, jax.jit, jax.vmap, tree_flatten/unflatten, GeometricImage pytree round trip) are checked on the "
    "spot. After every inverse the state must equal the recorded state exactly, block by block by type, together with D and the torus flags; "
    "intermediate states satisfy the element-count invariant and, for to_scalar, the documented channel placement (offset + c*D^k + component). "
    "Mode 'saveload': a model of a drawn class/constructor setting is saved and loaded into a same-structured model built from another key; its outputs "
    "must be bit-identical to the saved model's and differ from the fresh model's. Non-trivial: >= 2 different operation kinds on a signature with k>=2 or >= 2 leading axes."
)
ASSUMPTIONS = [
    "operations the layout does not admit (to_scalar with 0 leading axes, reshape_pmap on a non-batch axis 0, multi-type multi-images with 0 leading axes) are disabled by precondition",
    "reshape_pmap only uses len(devices); the host has one CPU device, lists of that device simulate n devices",
]
CLEAR_CACHES_EVERY = 200  # the save/load mode builds networks
CONFIG = {
    "quick": {"examples": 960, "shards": 16, "shrink_s": 40, "time_budget_s": 240},
    "thorough": {"examples": 9000, "shards": 16, "shrink_s": 200, "time_budget_s": 1500},
}
LEAD_SIZES = [2, 3, 5, 7, 4, 6]
IMMEDIATE = ["vector", "images", "copy", "jit", "vmap", "flatten", "gi_pytree"]


def _common_divisors(vals):
    g = 0
    for v in vals:
        g = np.gcd(g, v)
    return [x for x in range(1, int(g) + 1) if g % x == 0]


def draw_case(data, tier):
    if data.draw(st.integers(0, 15), label="mode_pick") == 0:
        from gv import netgen

        cfg = netgen.draw_model_cfg(data, tier)
        if not cfg["equivariant"] and cfg["cls"] == "ConvBlock":
            cfg["cls"] = "ResNet"
        return {"mode": "saveload", "cfg": cfg, "xseed": data.draw(st.integers(0, 9999), label="xseed")}
    d = data.draw(st.sampled_from([1, 2, 2, 3]), label="d")
    shape, _ = gen.draw_shape(data, d, 1, 3 if d < 3 else 2, classes=("cubic", "distinct", "free", "has1"))
    torus = gen.draw_torus(data, d)
    nlead = data.draw(st.sampled_from([0, 1, 1, 2, 2, 3]), label="nlead")
    if nlead == 0:
        sig = gen.draw_signature(data, d, kmax=3, min_types=1, max_types=1, cmax=1)
        batch = []
    else:
        sig = gen.draw_signature(data, d, kmax=3 if d == 2 else 2, min_types=1, max_types=4, cmax=4)
        big = data.draw(st.integers(0, 9), label="big_lead") == 0  # product of the leading sizes above 512 in 1 case of 10
        batch = list(data.draw(st.permutations([23, 29, 3] if big else [5, 7, 3]), label="batch")[: nlead - 1])
    # exact symbolic state: ordered list of [type, lead shape]
    state = [[tuple(t), tuple(batch) + ((c,) if nlead > 0 else ())] for t, c in sig]
    stack = []
    steps = []
    nsteps = data.draw(st.integers(1, 8), label="nsteps")
    for _ in range(nsteps):
        nl = len(state[0][1])
        ntypes = len(state)
        scalar_only = [t for t, _ in state] == [(0, 0)]
        enabled = ["copy", "flatten", "jit", "vector", "images", "gi_pytree"]
        same_ax0 = nl > 0 and len({l[0] for _, l in state}) == 1
        if same_ax0:
            enabled.append("vmap")
        if nl >= 1 and not scalar_only and len({l[:-1] for _, l in state}) == 1:  # batch axes must be common to all types
            enabled += ["to_scalar", "to_scalar"]
        if nl >= 1:
            enabled += ["concat", "concat"]
        if 1 <= nl <= 3:
            enabled += ["expand", "expand"]
        if same_ax0 and nl <= 3:
            enabled.append("pmap")
        if stack:
            enabled += ["pop", "pop", "pop"]
        op = data.draw(st.sampled_from(enabled), label="op")
        if op == "to_scalar":
            stack.append([list(x) for x in state])
            steps.append({"op": "to_scalar"})
            chans = sum(l[-1] * d ** t[0] for t, l in state)
            state = [[(0, 0), state[0][1][:-1] + (chans,)]]
        elif op == "concat":
            axis = data.draw(st.integers(0, nl - 1), label="axis")
            subset = [data.draw(st.booleans(), label="in_b") for _ in range(ntypes)]
            if not any(subset):
                subset[0] = True
            sizes = [data.draw(st.integers(1, 3), label="bsize") for _ in range(ntypes)]
            newtype = None
            if d > 1 and data.draw(st.booleans(), label="b_has_new_type"):
                cand = [t for t in [(1, 1), (0, 1), (1, 0), (0, 0), (2, 1)] if t not in [x for x, _ in state]]
                if cand:
                    newtype = list(cand[0])
            steps.append({"op": "concat", "axis": axis, "subset": subset, "sizes": sizes, "newtype": newtype, "seed": data.draw(st.integers(0, 999), label="bseed")})
            stack.append([list(x) for x in state])
            new_state = []
            for idx, (t, l) in enumerate(state):
                l = list(l)
                if subset[idx]:
                    l[axis] += sizes[idx]
                new_state.append([t, tuple(l)])
            if newtype is not None:
                l = list(state[0][1])
                l[axis] = 2
                if axis != nl - 1:
                    l[nl - 1] = 1
                new_state.append([tuple(newtype), tuple(l)])
            state = new_state
        elif op == "expand":
            axis = data.draw(st.integers(0, nl - 1), label="axis")
            divs = _common_divisors([l[axis] for _, l in state])
            size = data.draw(st.sampled_from(divs), label="size")
            steps.append({"op": "expand", "axis": axis, "size": size, "inverse": data.draw(st.sampled_from(["combine", "merge"]), label="inverse")})
            stack.append([list(x) for x in state])
            state = [[t, l[:axis] + (l[axis] // size, size) + l[axis + 1:]] for t, l in state]
        elif op == "pmap":
            L = state[0][1][0]
            ndev = data.draw(st.sampled_from(_common_divisors([L])), label="ndev")
            steps.append({"op": "pmap", "ndev": ndev})
            stack.append([list(x) for x in state])
            state = [[t, (ndev, L // ndev) + l[1:]] for t, l in state]
        elif op == "pop":
            state = [[tuple(t), tuple(l)] for t, l in stack.pop()]
            steps.append({"op": "pop"})
        else:
            steps.append({"op": op})
    return {"d": d, "shape": list(shape), "torus": list(torus), "sig": sig, "batch": batch, "nlead": nlead, "steps": steps}


# One jitted / vmapped identity shared by every call in the process: a pytree registration whose static data compare
# equal although they differ (D, torus flags, parity) makes a later call hit the compilation cache of an earlier one.
_SHARED_JIT = jax.jit(lambda m: m)
_SHARED_JIT_CHAIN = jax.jit(lambda m: m.copy())


def _flag_variants(torus):
    """Other torus-flag tuples of the same length (all-True, all-False, complement)."""
    d = len(torus)
    out = []
    for alt in ((True,) * d, (False,) * d, tuple(not t for t in torus)):
        if alt != tuple(torus) and alt not in out:
            out.append(alt)
    return out


def _blocks(mi):
    return {t: np.asarray(v) for t, v in mi.items()}


def _same(mi, snap, what):
    """snap: (ordered list of (type, array), D, torus)."""
    blocks, D, torus = snap
    if mi.D != D or tuple(mi.is_torus) != tuple(torus):
        return viol(f"C13/{what}/metadata", f"D={mi.D} is_torus={mi.is_torus}, expected D={D} {torus}")
    if set(mi.keys()) != {t for t, _ in blocks}:
        return viol(f"C13/{what}/types", f"types {list(mi.keys())} expected {[t for t, _ in blocks]}")
    for t, arr in blocks:
        got = np.asarray(mi[t])
        if not exact_equal(got, arr):
            return viol(f"C13/{what}", f"block {t}: {first_diff(got, arr)}")
    return None


def _snap(mi):
    return ([(t, np.asarray(v)) for t, v in mi.items()], mi.D, tuple(mi.is_torus))


def run_case(case):
    if case.get("mode") == "saveload":
        from gv import netgen

        return netgen.run_saveload(case)
    d, shape, torus = case["d"], tuple(case["shape"]), tuple(bool(t) for t in case["torus"])
    sig = [((int(t[0]), int(t[1])), int(c)) for t, c in case["sig"]]
    batch = tuple(case["batch"])
    nlead = case["nlead"]
    labels = [f"d{d}", f"nlead{nlead}", f"types{len(sig)}", "kmax%d" % max(t[0] for t, _ in sig)]
    key = [d, shape, torus, case["sig"], batch, case["steps"]]
    start = 1
    data = {}
    for t, c in sig:
        lead = batch + ((c,) if nlead > 0 else ())
        arr = gen.ident_array(lead + shape + (d,) * t[0], start=start)
        start += arr.size
        data[t] = jnp.asarray(arr, dtype=jnp.float32)
    if start >= 2**24:
        raise HarnessError("identifier range")
    cur = geom.MultiImage(data, d, torus)
    total = cur.size()
    stack = []
    kinds = set()
    evals = 0
    for si, step in enumerate(case["steps"]):
        op = step["op"]
        kinds.add(op)
        evals += 1
        nl = cur.get_n_leading()
        if op == "to_scalar":
            before = _snap(cur)
            sigc = cur.get_signature()
            sc = cur.to_scalar_multi_image()
            if list(sc.keys()) != [(0, 0)]:
                return result(viol("C13/to_scalar/types", f"keys {list(sc.keys())}"), True, key, labels, evals)
            # documented placement: channel index = offset(type) + c*D^k + component
            blk = np.asarray(sc[(0, 0)])
            off = 0
            for (t, c) in [(tt, cc) for tt, cc in sigc]:
                src = np.asarray(cur[t])
                nb = nl - 1
                for ch in range(c):
                    comp = src[(slice(None),) * nb + (ch,)].reshape(src.shape[:nb] + shape + (-1,))
                    for ci in range(d ** t[0]):
                        got = blk[(slice(None),) * nb + (off + ch * d ** t[0] + ci,)]
                        if not exact_equal(got, comp[..., ci]):
                            return result(viol("C13/to_scalar/placement", f"type {t} channel {ch} component {ci} not at scalar channel {off + ch * d ** t[0] + ci}"), True, key, labels, evals)
                off += c * d ** t[0]
            if blk.shape[nl - 1] != off:
                return result(viol("C13/to_scalar/count", f"{blk.shape[nl-1]} scalar channels, expected {off}"), True, key, labels, evals)
            stack.append(("to_scalar", before, sigc))
            cur = sc
        elif op == "concat":
            axis = step["axis"]
            before = _snap(cur)
            rng = np.random.default_rng(step["seed"])
            bblocks = {}
            keys = list(cur.keys())
            for idx, t in enumerate(keys):
                if idx < len(step["subset"]) and step["subset"][idx]:
                    shp = list(np.asarray(cur[t]).shape)
                    shp[axis] = step["sizes"][idx]
                    bblocks[t] = jnp.asarray(-rng.integers(1, 1000, size=shp), dtype=jnp.float32)
            if not bblocks:
                t = keys[0]
                shp = list(np.asarray(cur[t]).shape)
                shp[axis] = 1
                bblocks[t] = jnp.asarray(-rng.integers(1, 1000, size=shp), dtype=jnp.float32)
            if step["newtype"]:
                if tuple(step["newtype"]) not in keys:
                    t = tuple(step["newtype"])
                    anyb = np.asarray(cur[keys[0]])
                    shp = list(anyb.shape[:nl]) + list(shape) + [d] * t[0]
                    shp[axis] = 2
                    if axis != nl - 1:
                        shp[nl - 1] = 1
                    bblocks[t] = jnp.asarray(-rng.integers(1, 1000, size=shp), dtype=jnp.float32)
                    labels.append("concat_new_type")
            b = geom.MultiImage(bblocks, d, torus)
            bsnap = _snap(b)
            sig_b = {t: int(np.asarray(v).shape[axis]) for t, v in b.items()}
            joined = cur.concat(b, axis=axis)
            if joined.size() != cur.size() + b.size():
                return result(viol("C13/concat/count", "element count not additive"), True, key, labels, evals)
            stack.append(("concat", before, (axis, sig_b, bsnap)))
            labels.append(f"concat_axis{axis}_of{nl}")
            cur = joined
        elif op == "expand":
            axis = step["axis"]
            before = _snap(cur)
            size = step["size"]
            ex = cur.expand(axis, size)
            if ex.size() != cur.size() or ex.get_n_leading() != nl + 1:
                return result(viol("C13/expand/shape", f"n_leading {ex.get_n_leading()} size {ex.size()}"), True, key, labels, evals)
            for t, v in ex.items():
                if np.asarray(v).shape[axis + 1] != size:
                    return result(viol("C13/expand/shape", f"block {t} shape {np.asarray(v).shape}"), True, key, labels, evals)
            stack.append(("expand", before, (axis, step["inverse"])))
            labels.append(f"expand_size{min(size, 3)}")
            cur = ex
        elif op == "pmap":
            before = _snap(cur)
            L = cur.get_L()
            ndev = step["ndev"]
            devs = [jax.devices()[0]] * ndev
            pm = cur.reshape_pmap(devs)
            for t, v in pm.items():
                if np.asarray(v).shape[:2] != (ndev, L // ndev):
                    return result(viol("C13/reshape_pmap/shape", f"block {t} shape {np.asarray(v).shape} for {ndev} devices, L={L}"), True, key, labels, evals)
            stack.append(("pmap", before, None))
            labels.append(f"pmap_dev{min(ndev, 3)}")
            cur = pm
        elif op == "pop":
            kind, before, aux = stack.pop()
            if kind == "to_scalar":
                back = cur.from_scalar_multi_image(aux)
                v = _same(back, before, "scalar-roundtrip")
                if v is None and list(back.keys()) != [t for t, _ in before[0]]:
                    v = viol("C13/scalar-roundtrip/order", f"type order {list(back.keys())} != {[t for t, _ in before[0]]}")
            elif kind == "concat":
                axis, sig_b, bsnap = aux
                a2, b2 = cur.concat_inverse(sig_b, axis=axis)
                v = _same(a2, before, "concat-roundtrip") or _same(b2, bsnap, "concat-roundtrip-b")
            elif kind == "expand":
                axis, inv = aux
                back = cur.combine_axes((axis, axis + 1)) if inv == "combine" else cur.merge_axes([axis, axis + 1])
                v = _same(back, before, "expand-roundtrip")
            else:
                back = cur.merge_axes([0, 1])
                v = _same(back, before, "pmap-roundtrip")
            if v:
                return result(v, True, key, labels, evals)
            cur = geom.MultiImage({t: jnp.asarray(a) for t, a in before[0]}, before[1], before[2]) if kind != "concat" else a2
            if kind in ("to_scalar", "expand", "pmap"):
                cur = back
        elif op == "vector":
            vec = cur.to_vector()
            if vec.shape != (cur.size(),):
                return result(viol("C13/vector/size", f"{vec.shape}"), True, key, labels, evals)
            v = _same(geom.MultiImage.from_vector(vec, cur), _snap(cur), "vector-roundtrip")
            if v:
                return result(v, True, key, labels, evals)
        elif op == "images":
            imgs = cur.to_images()
            n_expected = sum(int(np.prod(np.asarray(v).shape[:nl])) for v in cur.values())
            if len(imgs) != n_expected:
                return result(viol("C13/images/count", f"{len(imgs)} images, expected {n_expected}"), True, key, labels, evals)
            for im in imgs:
                if im.D != d or tuple(im.is_torus) != torus or tuple(im.spatial_dims) != shape:
                    return result(viol("C13/images/metadata", f"{im}"), True, key, labels, evals)
            # from_images appends image by image (quadratic in the number of images): with thousands of images only the first 600
            # are rebuilt, the to_images side is still checked for all of them
            flat_blocks = [(t, np.asarray(v).reshape((-1,) + shape + (d,) * t[0])) for t, v in cur.items()]
            if len(imgs) > 600:
                labels.append("images_roundtrip_truncated")
                i0 = 0
                v = None
                for t, blk in flat_blocks:
                    for j in range(blk.shape[0]):
                        if not exact_equal(np.asarray(imgs[i0 + j].data), blk[j]):
                            v = viol("C13/images-roundtrip", f"to_images: image {i0 + j} differs from its entry of block {t}")
                            break
                    i0 += blk.shape[0]
                    if v:
                        break
                imgs = imgs[:600]
                counts = {}
                keep = []
                i0 = 0
                for t, blk in flat_blocks:
                    n_t = max(0, min(blk.shape[0], 600 - i0))
                    if n_t:
                        keep.append((t, blk[:n_t]))
                    i0 += blk.shape[0]
                flat_blocks = keep
                if v:
                    return result(v, True, key, labels, evals)
            back = geom.MultiImage.from_images(imgs)
            flat = (flat_blocks, d, torus)
            v = _same(back, flat, "images-roundtrip")
            if v is None:
                # parity of every image is the parity of its block
                i = 0
                for t, vblk in cur.items():
                    n = int(np.prod(np.asarray(vblk).shape[:nl]))
                    for im in imgs[i:i + n]:
                        if (im.k, im.parity) != t:
                            v = viol("C13/images/type", f"image of block {t} has (k,parity)=({im.k},{im.parity})")
                    i += n
            if v:
                return result(v, True, key, labels, evals)
            # the list need not be grouped by type: interleave the images (deterministic shuffle) and rebuild
            if len(imgs) > 1:
                perm = np.random.default_rng(len(imgs) * 7919 + si).permutation(len(imgs))
                mixed = [imgs[j] for j in perm]
                rebuilt = geom.MultiImage.from_images(mixed)
                expect = {}
                for im in mixed:
                    expect.setdefault((im.k, im.parity), []).append(np.asarray(im.data))
                flat2 = ([(t, np.stack(v_)) for t, v_ in expect.items()], d, torus)
                v = _same(rebuilt, flat2, "images-interleaved")
                if v is None and len(rebuilt.to_images()) != len(mixed):
                    v = viol("C13/images-interleaved/count", f"{len(rebuilt.to_images())} images come back from {len(mixed)}")
                if v:
                    return result(v, True, key, labels, evals)
        elif op in ("copy", "jit", "vmap", "flatten"):
            if op == "copy":
                other = cur.copy()
            elif op == "jit":
                # first push same-shaped multi-images with other boundary flags through the shared jitted functions
                for alt in _flag_variants(cur.is_torus):
                    twin = geom.MultiImage(dict(cur.data), cur.D, alt)
                    for fn in (_SHARED_JIT, _SHARED_JIT_CHAIN):
                        o = fn(twin)
                        if tuple(o.is_torus) != alt or o.D != cur.D:
                            return result(viol("C13/jit-roundtrip/metadata", f"jit(identity) of a multi-image with is_torus={alt} returned is_torus={o.is_torus} (an earlier call used other flags)"), True, key, labels, evals)
                other = _SHARED_JIT(cur)
                v = _same(_SHARED_JIT_CHAIN(cur), _snap(cur), "jit-roundtrip")
                if v:
                    return result(v, True, key, labels, evals)
            elif op == "vmap":
                other = jax.vmap(lambda m: m)(cur)
            else:
                leaves, treedef = jax.tree_util.tree_flatten(cur)
                other = jax.tree_util.tree_unflatten(treedef, leaves)
            v = _same(other, _snap(cur), f"{op}-roundtrip")
            if v:
                return result(v, True, key, labels, evals)
        elif op == "gi_pytree":
            t0 = list(cur.keys())[0]
            blk = np.asarray(cur[t0])
            one = blk[(0,) * nl]
            gi = geom.GeometricImage(jnp.asarray(one), t0[1], d, torus)
            # same shape, other parity / other flags through the shared jitted identity first
            for twin in [geom.GeometricImage(jnp.asarray(one), 1 - t0[1], d, torus)] + [geom.GeometricImage(jnp.asarray(one), t0[1], d, alt) for alt in _flag_variants(torus)]:
                o = _SHARED_JIT(twin)
                if (o.parity, tuple(o.is_torus), o.D) != (twin.parity, tuple(twin.is_torus), d):
                    return result(viol("C13/gi-pytree", f"shared jit: image with parity={twin.parity} is_torus={twin.is_torus} came back as parity={o.parity} is_torus={o.is_torus}"), True, key, labels, evals)
            for nm, other in (("jit", _SHARED_JIT(gi)), ("flatten", jax.tree_util.tree_unflatten(*reversed(jax.tree_util.tree_flatten(gi))))):
                if (other.D, other.k, other.parity, tuple(other.is_torus), tuple(other.spatial_dims)) != (d, t0[0], t0[1], torus, shape) or not exact_equal(np.asarray(other.data), one):
                    return result(viol("C13/gi-pytree", f"{nm}: {other}"), True, key, labels, evals)
        else:
            raise HarnessError(op)
        if cur.size() < total:
            return result(viol("C13/element-count", f"step {si} {op}: {cur.size()} < {total} elements"), True, key, labels, evals)
    # undo whatever is still on the stack
    while stack:
        kind, before, aux = stack.pop()
        evals += 1
        if kind == "to_scalar":
            back = cur.from_scalar_multi_image(aux)
            v = _same(back, before, "scalar-roundtrip")
            cur = back
        elif kind == "concat":
            axis, sig_b, bsnap = aux
            a2, b2 = cur.concat_inverse(sig_b, axis=axis)
            v = _same(a2, before, "concat-roundtrip") or _same(b2, bsnap, "concat-roundtrip-b")
            cur = a2
        elif kind == "expand":
            axis, inv = aux
            back = cur.combine_axes((axis, axis + 1)) if inv == "combine" else cur.merge_axes([axis, axis + 1])
            v = _same(back, before, "expand-roundtrip")
            cur = back
        else:
            back = cur.merge_axes([0, 1])
            v = _same(back, before, "pmap-roundtrip")
            cur = back
        if v:
            return result(v, True, key, labels, evals)
    labels += ["op_" + k for k in kinds]
    nontrivial = len(kinds - {"pop"}) >= 2 and (max(t[0] for t, _ in sig) >= 2 or nlead >= 2)
    return result(None, nontrivial, key, labels, evals)
