"""Network-level helpers: filter banks, parameter perturbation, model construction from JSON configs."""
import os

import numpy as np

import jax
import jax.numpy as jnp
import jax.random as random
import equinox as eqx
import ginjax.geometric as geom
import ginjax.ml as ml
import ginjax.models as models

from gv import gen
from gv.common import HarnessError, VERIF_ROOT, exact_equal, rel_defect, result, viol
from gv.ref import core as ref

_BANKS = {}


_GROUP_OPS = {}


def group_ops(d, name):
    """The same list object (and array objects) for every request: GroupAverage keeps its operators as a *static* pytree
    field, and jax compares static fields with ==; two equal-valued but distinct numpy arrays make that comparison raise
    (ambiguous truth value) as soon as two such models meet in one jit / pmap cache."""
    if (d, name) not in _GROUP_OPS:
        _GROUP_OPS[(d, name)] = [np.asarray(g) for g in ref.named_group(name, d)]
    return _GROUP_OPS[(d, name)]


_SRC_HASH = None
_FILTERS = {}


def _src_hash():
    """Hash of the library's geometric package: the on-disk filter cache must never outlive a source change."""
    global _SRC_HASH
    if _SRC_HASH is None:
        import glob
        import hashlib

        h = hashlib.sha1()
        base = os.path.dirname(os.path.abspath(geom.__file__))
        for f in sorted(glob.glob(os.path.join(base, "*.py"))):
            with open(f, "rb") as fh:
                h.update(fh.read())
        _SRC_HASH = h.hexdigest()[:16]
    return _SRC_HASH


def unique_filters(d, group, M, k, p, scale):
    """geom.get_unique_invariant_filters(...) as a stacked array (n, spatial, tensor) or None; memory + disk cache."""
    key = (d, group, M, k, p, scale)
    if key in _FILTERS:
        return _FILTERS[key]
    cdir = os.path.join(VERIF_ROOT, ".work", "banks", _src_hash())
    path = os.path.join(cdir, f"d{d}_{group}_M{M}_k{k}_p{p}_{scale}.npy")
    arr = None
    if os.path.exists(path):
        try:
            arr = np.load(path)
        except Exception:  # noqa: BLE001  (partially written by another process: recompute)
            arr = None
    if arr is None:
        fl = geom.get_unique_invariant_filters(M, k, p, d, group_ops(d, group), scale)
        arr = np.stack([np.asarray(f.data) for f in fl]) if len(fl) else np.zeros((0,) + (M,) * d + (d,) * k, dtype=np.float32)
        try:
            os.makedirs(cdir, exist_ok=True)
            tmp = path + f".{os.getpid()}.tmp.npy"
            np.save(tmp, arr)
            os.replace(tmp, path)
        except OSError:
            pass
    _FILTERS[key] = arr
    return arr


def bank(d, group="B", Ms=(3,), ks=(0, 1, 2), parities=(0, 1), scale="normalize"):
    """The filter bank a user would get from geom.get_invariant_filters(Ms, ks, parities, d, operators, scale) (single M):
    assembled per (k,parity) from get_unique_invariant_filters (C03 checks that the two agree)."""
    key = (d, group, tuple(Ms), tuple(ks), tuple(parities), scale)
    if key not in _BANKS:
        assert len(Ms) == 1
        blocks = {}
        for k in ks:
            for p in parities:
                arr = unique_filters(d, group, Ms[0], k, p, scale)
                if len(arr):
                    blocks[(k, p)] = jnp.asarray(arr)
        _BANKS[key] = geom.MultiImage(blocks, d)
    return _BANKS[key]


def _is_bank_path(path):
    return any(getattr(p, "name", None) == "invariant_filters" for p in path)


def perturb(module, seed, scale=0.5, skip_banks=True):
    """leaf + scale*N(0,1) for every inexact array leaf, except the invariant filter banks (they are array leaves
    too, and perturbing them trivially destroys equivariance)."""
    leaves, treedef = jax.tree_util.tree_flatten_with_path(module)
    rng = np.random.default_rng(seed)
    new = []
    for path, leaf in leaves:
        if eqx.is_inexact_array(leaf) and not (skip_banks and _is_bank_path(path)):
            new.append(leaf + scale * jnp.asarray(rng.standard_normal(leaf.shape), dtype=leaf.dtype))
        else:
            new.append(leaf)
    return jax.tree_util.tree_unflatten(treedef, new)


def max_param_delta(a, b):
    la = [x for x in jax.tree_util.tree_leaves(a) if eqx.is_inexact_array(x)]
    lb = [x for x in jax.tree_util.tree_leaves(b) if eqx.is_inexact_array(x)]
    return max([float(jnp.max(jnp.abs(x - y))) for x, y in zip(la, lb) if x.size] + [0.0])


def bank_leaves(module):
    leaves, _ = jax.tree_util.tree_flatten_with_path(module)
    return [(jax.tree_util.keystr(path), np.asarray(leaf)) for path, leaf in leaves if _is_bank_path(path) and eqx.is_array(leaf)]


# --------------------------------------------------------------------------- model construction

ACTS = {"relu": "relu", "gelu": "gelu", "tanh": "tanh", "none": None}
MODEL_CLASSES = ["UNet", "ResNet", "DilResNet", "ConvBlock"]


def draw_model_cfg(data, tier, equivariant=None, allow_d3=True, classes=None):
    """Constructor space of C07 / C20 (JSON-able)."""
    from hypothesis import strategies as st

    cls = data.draw(st.sampled_from(classes or MODEL_CLASSES), label="cls")
    d = data.draw(st.sampled_from([2, 2, 2, 3] if allow_d3 else [2]), label="d")
    eqv = data.draw(st.sampled_from([True, True, False]), label="equivariant") if equivariant is None else equivariant
    group_norm = data.draw(st.booleans(), label="group_norm")
    kmax = 1 if (group_norm or d == 3) else 2
    if not eqv:
        kmax = 1 if d == 3 else 2
    in_sig = gen.draw_signature(data, d, kmax=kmax, min_types=1, max_types=3, cmax=2)
    out_sig = gen.draw_signature(data, d, kmax=kmax, min_types=1, max_types=3, cmax=2)
    downs = data.draw(st.integers(1, 2 if d == 2 else 1), label="num_downsamples") if cls == "UNet" else 0
    mult = 2**downs
    N = mult * data.draw(st.integers(1, 2), label="N_mult") if cls == "UNet" else data.draw(st.sampled_from([3, 4, 5] if d == 2 else [3]), label="N")
    if cls == "UNet":
        N = max(N, 4 if d == 2 else 2)
    cfg = {
        "cls": cls, "d": d, "equivariant": eqv, "G": data.draw(st.sampled_from(["B", "B", "SO", "C2"]), label="G"),
        "in_sig": in_sig, "out_sig": out_sig, "depth": data.draw(st.integers(1, 3), label="depth"),
        "num_blocks": data.draw(st.integers(1, 2), label="num_blocks"), "num_conv": data.draw(st.integers(1, 2), label="num_conv"),
        "num_downsamples": downs, "act": data.draw(st.sampled_from(["relu", "gelu", "tanh"] + (["none"] if cls in ("ConvBlock",) else [])), label="act"),
        "group_norm": group_norm, "preact": data.draw(st.booleans(), label="preact"),
        "bias": data.draw(st.sampled_from(["auto", "auto", "mean", "scalar", True, False]), label="bias") if eqv else data.draw(st.sampled_from(["auto", True, False]), label="bias"),
        "torus": data.draw(st.booleans(), label="torus"), "N": N, "kernel_size": data.draw(st.sampled_from([1, 3]), label="kernel_size"),
        "explicit_mid": data.draw(st.booleans(), label="explicit_mid_keys"), "seed": data.draw(st.integers(0, 99999), label="seed"),
    }
    # non-square inputs (extents stay compatible with the pooling: multiples of 2^downsamples) in a third of the cases
    if data.draw(st.integers(0, 2), label="nonsquare") == 0:
        if cls == "UNet":
            floor = 4 if d == 2 else 2
            shape = [max(mult * data.draw(st.integers(1, 2), label="N_ax"), floor) for _ in range(d)]
        else:
            shape = [max(data.draw(st.integers(1, 3 if d == 2 else 2), label="N_ax"), 2) for _ in range(d)]
        cfg["shape"] = shape
    if cls == "ConvBlock" and cfg["preact"]:
        # pre-activation order applies the norm / nonlinearity built for the output signature to the input: only defined when they agree
        cfg["out_sig"] = [list(map(lambda v: list(v) if isinstance(v, list) else v, s_)) for s_ in in_sig]
    if cfg["explicit_mid"] and eqv:
        mid = gen.draw_signature(data, d, kmax=kmax, min_types=1, max_types=3, cmax=1)
        for m in mid:
            m[1] = cfg["depth"]
        cfg["mid_sig"] = mid
    if eqv:
        # constructive: keep only banks for which the architecture can be evaluated at all (see simulate_types)
        for G in [cfg["G"], "SO", "C2"]:
            cfg["G"] = G
            if simulate_types(cfg) is not None:
                break
    return cfg


def cfg_key(cfg):
    return {k: v for k, v in cfg.items() if k not in ("seed",)}


def model_kmax(cfg):
    ks = [t[0][0] for t in cfg["in_sig"] + cfg["out_sig"] + cfg.get("mid_sig", [])]
    return max(ks)


def model_banks(cfg):
    d = cfg["d"]
    km = model_kmax(cfg)
    ks = tuple(range(0, 2 * km + 1))
    return bank(d, cfg["G"], (3,), ks), bank(d, cfg["G"], (2,), ks)


def build_model(cfg, seed=None):
    d = cfg["d"]
    key = random.PRNGKey(cfg["seed"] if seed is None else seed)
    in_sig, out_sig = gen.sig_tuple(cfg["in_sig"]), gen.sig_tuple(cfg["out_sig"])
    eqv = cfg["equivariant"]
    conv_filters, up_filters = model_banks(cfg) if eqv else (None, None)
    mid = gen.sig_tuple(cfg["mid_sig"]) if (eqv and cfg.get("mid_sig")) else None
    act = ACTS[cfg["act"]]
    ks = None if eqv else cfg["kernel_size"]
    cls = cfg["cls"]
    if cls == "UNet":
        return models.UNet(d, in_sig, out_sig, cfg["depth"], cfg["num_downsamples"], cfg["num_conv"], cfg["bias"], act, eqv, conv_filters, up_filters,
                           ks if ks is None else 3, cfg["group_norm"], False, mid, key)
    if cls == "ResNet":
        return models.ResNet(d, in_sig, out_sig, cfg["depth"], cfg["num_blocks"], cfg["num_conv"], cfg["bias"], act, eqv, conv_filters, ks,
                             cfg["group_norm"], cfg["preact"], mid, key)
    if cls == "DilResNet":
        return models.DilResNet(d, in_sig, out_sig, cfg["depth"], 1, cfg["bias"], act, eqv, conv_filters, ks if ks is None else 3, cfg["group_norm"], mid, key)
    if cls == "ConvBlock":
        if not eqv:
            raise HarnessError("conventional ConvBlock needs scalar signatures; not generated")
        return models.ConvBlock(d, in_sig, out_sig, cfg["bias"], act, True, conv_filters, None, cfg["group_norm"], False, cfg["preact"], key)
    raise HarnessError(cls)


def model_shape(cfg):
    return tuple(cfg["shape"]) if cfg.get("shape") else (cfg["N"],) * cfg["d"]


def model_input(cfg, seed, batch=None, kind="normal"):
    d = cfg["d"]
    rng = np.random.default_rng(seed)
    X = {}
    for (k, p), c in gen.sig_tuple(cfg["in_sig"]):
        shp = (() if batch is None else (batch,)) + (c,) + model_shape(cfg) + (d,) * k
        X[(k, p)] = rng.standard_normal(shp).astype(np.float32) if kind == "normal" else gen.ident_array(shp, start=1).astype(np.float32)
    return X


def to_mi(d, X, torus):
    tor = (bool(torus),) * d if isinstance(torus, bool) else tuple(bool(t) for t in torus)
    return geom.MultiImage({t: jnp.asarray(a, dtype=jnp.float32) for t, a in X.items()}, d, tor)


def call_model(model, mi):
    out = model(mi)
    return out[0] if isinstance(out, tuple) else out


_KEYSETS = {}


def bank_keys(d, G, M, kmax):
    """(k,p) for which a G-invariant filter of side M exists, from the character formula (independent of the library)."""
    key = (d, G, M, kmax)
    if key not in _KEYSETS:
        ops = ref.named_group(G, d)
        _KEYSETS[key] = {(k, p) for k in range(kmax + 1) for p in (0, 1) if ref.burnside(ops, d, M, k, p) > 0}
    return _KEYSETS[key]


def simulate_types(cfg):
    """Mirror the layer sequence of the architecture on type sets: which requested output types are reachable from the input
    types through the filter types that exist. Returns the ordered list ((k,p),c) in requested order, or None when the
    architecture itself cannot be evaluated for this bank (a residual sum / skip concatenation would meet different type sets)."""
    d = cfg["d"]
    km = model_kmax(cfg)
    K3 = bank_keys(d, cfg["G"], 3, 2 * km)
    K2 = bank_keys(d, cfg["G"], 2, 2 * km)

    def step(S, targets, K):
        return [t for t in targets if any(((s[0] + t[0]), (s[1] + t[1]) % 2) in K for s in S)]

    in_t = [t for t, _ in gen.sig_tuple(cfg["in_sig"])]
    out_sig = gen.sig_tuple(cfg["out_sig"])
    out_t = [t for t, _ in out_sig]
    if cfg.get("mid_sig"):
        mid_t = [t for t, _ in gen.sig_tuple(cfg["mid_sig"])]
    else:
        mid_t = sorted(set(in_t) | set(out_t))
    cls = cfg["cls"]
    if cls == "ConvBlock":
        R = step(in_t, out_t, K3)
    elif cls in ("ResNet", "DilResNet"):
        S = step(in_t, mid_t, K3)
        S = step(S, mid_t, K3)
        nblocks = cfg["num_blocks"] if cls == "ResNet" else 1
        nconv = cfg["num_conv"] if cls == "ResNet" else 7
        for _ in range(nblocks):
            S0 = S
            for _ in range(nconv):
                S = step(S, mid_t, K3)
            if set(S) != set(S0):
                return None
        S = step(S, mid_t, K3)
        R = step(S, out_t, K3)
    else:  # UNet
        S = step(in_t, mid_t, K3)
        for _ in range(cfg["num_conv"] - 1):
            S = step(S, mid_t, K3)
        residuals = []
        for _ in range(cfg["num_downsamples"]):
            residuals.append(S)
            for _ in range(cfg["num_conv"]):
                S = step(S, mid_t, K3)
        for res in reversed(residuals):
            U = step(S, mid_t, K2)
            if set(U) != set(res):
                return None
            S = U
            for _ in range(cfg["num_conv"]):
                S = step(S, mid_t, K3)
        R = step(S, out_t, K3)
    if not R and cls != "ConvBlock":
        pass
    return [(t, c) for t, c in out_sig if t in R]


# --------------------------------------------------------------------------- save / load round trip (C13)


def run_saveload(case):
    cfg = case["cfg"]
    d = cfg["d"]
    labels = ["mode_saveload", "cls_" + cfg["cls"], f"d{d}", "equivariant" if cfg["equivariant"] else "conventional", "norm" if cfg["group_norm"] else "nonorm"]
    key = ["saveload", cfg_key(cfg)]
    if cfg["equivariant"] and simulate_types(cfg) is None:
        return result(None, False, key, labels + ["architecture_not_evaluable_for_bank"])
    saved = perturb(build_model(cfg, seed=cfg["seed"]), cfg["seed"] + 1, 0.3)
    fresh = build_model(cfg, seed=cfg["seed"] + 12345)
    wdir = os.path.join(VERIF_ROOT, ".work", "C13")
    os.makedirs(wdir, exist_ok=True)
    path = os.path.join(wdir, f"model_{os.getpid()}.eqx")
    try:
        ml.save(path, saved)
        loaded = ml.load(path, fresh)
    finally:
        if os.path.exists(path):
            os.remove(path)
    x = to_mi(d, model_input(cfg, case["xseed"]), cfg["torus"])
    o_saved = call_model(saved, x)
    o_loaded = call_model(loaded, x)
    o_fresh = call_model(fresh, x)
    if o_saved.get_signature() != o_loaded.get_signature():
        return result(viol("C13/saveload/signature", f"{o_saved.get_signature()} vs {o_loaded.get_signature()}"), True, key, labels)
    differs = False
    for t in o_saved.keys():
        a, b, c = np.asarray(o_saved[t]), np.asarray(o_loaded[t]), np.asarray(o_fresh[t])
        if not (a.shape == b.shape and np.array_equal(a, b, equal_nan=True)):
            return result(viol("C13/saveload/outputs-differ", f"{cfg['cls']}: block {t} of the loaded model is not bit-identical to the saved model's"), True, key, labels)
        differs = differs or not np.array_equal(a, c, equal_nan=True)
    n_saved = len([l for l in jax.tree_util.tree_leaves(saved) if eqx.is_array(l)])
    n_loaded = len([l for l in jax.tree_util.tree_leaves(loaded) if eqx.is_array(l)])
    if n_saved != n_loaded:
        return result(viol("C13/saveload/structure", f"{n_saved} vs {n_loaded} array leaves"), True, key, labels)
    for la, lb in zip(jax.tree_util.tree_leaves(saved), jax.tree_util.tree_leaves(loaded)):
        if eqx.is_array(la) and not np.array_equal(np.asarray(la), np.asarray(lb), equal_nan=True):
            return result(viol("C13/saveload/leaf-differs", f"{cfg['cls']}: a parameter leaf of the loaded model differs from the saved one"), True, key, labels)
    labels.append("fresh_model_differs" if differs else "fresh_model_same_output")
    return result(None, differs, key, labels, evals=3)
