"""Network-level helpers: filter banks, parameter perturbation, model construction from JSON configs."""
import os

import numpy as np

import jax
import jax.numpy as jnp
import jax.random as random
import equinox as eqx
import ginjax.geometric as geom
import ginjax.ml as ml
import ginjax.models as models

from gv import gen
from gv.common import HarnessError, VERIF_ROOT, exact_equal, rel_defect, result, viol
from gv.ref import core as ref

_BANKS = {}


def group_ops(d, name):
    return [np.asarray(g) for g in ref.named_group(name, d)]


_SRC_HASH = None
_FILTERS = {}


def _src_hash():
    """Hash of the library's geometric package: the on-disk filter cache must never outlive a source change."""
    global _SRC_HASH
    if _SRC_HASH is None:
        import glob
        import hashlib

        h = hashlib.sha1()
        base = os.path.dirname(os.path.abspath(geom.__file__))
        for f in sorted(glob.glob(os.path.join(base, "*.py"))):
            with open(f, "rb") as fh:
                h.update(fh.read())
        _SRC_HASH = h.hexdigest()[:16]
    return _SRC_HASH


def unique_filters(d, group, M, k, p, scale):
    """geom.get_unique_invariant_filters(...) as a stacked array (n, spatial, tensor) or None; memory + disk cache."""
    key = (d, group, M, k, p, scale)
    if key in _FILTERS:
        return _FILTERS[key]
    cdir = os.path.join(VERIF_ROOT, ".work", "banks", _src_hash())
    path = os.path.join(cdir, f"d{d}_{group}_M{M}_k{k}_p{p}_{scale}.npy")
    arr = None
    if os.path.exists(path):
        try:
            arr = np.load(path)
        except Exception:  # noqa: BLE001  (partially written by another process: recompute)
            arr = None
    if arr is None:
        fl = geom.get_unique_invariant_filters(M, k, p, d, group_ops(d, group), scale)
        arr = np.stack([np.asarray(f.data) for f in fl]) if len(fl) else np.zeros((0,) + (M,) * d + (d,) * k, dtype=np.float32)
        try:
            os.makedirs(cdir, exist_ok=True)
            tmp = path + f".{os.getpid()}.tmp.npy"
            np.save(tmp, arr)
            os.replace(tmp, path)
        except OSError:
            pass
    _FILTERS[key] = arr
    return arr


def bank(d, group="B", Ms=(3,), ks=(0, 1, 2), parities=(0, 1), scale="normalize"):
    """The filter bank a user would get from geom.get_invariant_filters(Ms, ks, parities, d, operators, scale) (single M):
    assembled per (k,parity) from get_unique_invariant_filters (C03 checks that the two agree)."""
    key = (d, group, tuple(Ms), tuple(ks), tuple(parities), scale)
    if key not in _BANKS:
        assert len(Ms) == 1
        blocks = {}
        for k in ks:
            for p in parities:
                arr = unique_filters(d, group, Ms[0], k, p, scale)
                if len(arr):
                    blocks[(k, p)] = jnp.asarray(arr)
        _BANKS[key] = geom.MultiImage(blocks, d)
    return _BANKS[key]


def _is_bank_path(path):
    return any(getattr(p, "name", None) == "invariant_filters" for p in path)


def perturb(module, seed, scale=0.5, skip_banks=True):
    """leaf + scale*N(0,1) for every inexact array leaf, except the invariant filter banks (they are array leaves
    too, and perturbing them trivially destroys equivariance)."""
    leaves, treedef = jax.tree_util.tree_flatten_with_path(module)
    rng = np.random.default_rng(seed)
    new = []
    for path, leaf in leaves:
        if eqx.is_inexact_array(leaf) and not (skip_banks and _is_bank_path(path)):
            new.append(leaf + scale * jnp.asarray(rng.standard_normal(leaf.shape), dtype=leaf.dtype))
        else:
            new.append(leaf)
    return jax.tree_util.tree_unflatten(treedef, new)


def max_param_delta(a, b):
    la = [x for x in jax.tree_util.tree_leaves(a) if eqx.is_inexact_array(x)]
    lb = [x for x in jax.tree_util.tree_leaves(b) if eqx.is_inexact_array(x)]
    return max([float(jnp.max(jnp.abs(x - y))) for x, y in zip(la, lb) if x.size] + [0.0])


def bank_leaves(module):
    leaves, _ = jax.tree_util.tree_flatten_with_path(module)
    return [(jax.tree_util.keystr(path), np.asarray(leaf)) for path, leaf in leaves if _is_bank_path(path) and eqx.is_array(leaf)]
