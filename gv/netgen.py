"""Network-level helpers: filter banks, parameter perturbation, model construction from JSON configs."""
import os

import numpy as np

import jax
import jax.numpy as jnp
import jax.random as random
import equinox as eqx
import ginjax.geometric as geom
import ginjax.ml as ml
import ginjax.models as models

from gv import gen
from gv.common import HarnessError, VERIF_ROOT, exact_equal, rel_defect, result, viol
from gv.ref import core as ref

_BANKS = {}


def group_ops(d, name):
    return [np.asarray(g) for g in ref.named_group(name, d)]


def bank(d, group="B", Ms=(3,), ks=(0, 1, 2), parities=(0, 1), scale="normalize"):
    key = (d, group, tuple(Ms), tuple(ks), tuple(parities), scale)
    if key not in _BANKS:
        _BANKS[key] = geom.get_invariant_filters(list(Ms), list(ks), list(parities), d, group_ops(d, group), scale)
    return _BANKS[key]


def _is_bank_path(path):
    return any(getattr(p, "name", None) == "invariant_filters" for p in path)


def perturb(module, seed, scale=0.5, skip_banks=True):
    """leaf + scale*N(0,1) for every inexact array leaf, except the invariant filter banks (they are array leaves
    too, and perturbing them trivially destroys equivariance)."""
    leaves, treedef = jax.tree_util.tree_flatten_with_path(module)
    rng = np.random.default_rng(seed)
    new = []
    for path, leaf in leaves:
        if eqx.is_inexact_array(leaf) and not (skip_banks and _is_bank_path(path)):
            new.append(leaf + scale * jnp.asarray(rng.standard_normal(leaf.shape), dtype=leaf.dtype))
        else:
            new.append(leaf)
    return jax.tree_util.tree_unflatten(treedef, new)


def max_param_delta(a, b):
    la = [x for x in jax.tree_util.tree_leaves(a) if eqx.is_inexact_array(x)]
    lb = [x for x in jax.tree_util.tree_leaves(b) if eqx.is_inexact_array(x)]
    return max([float(jnp.max(jnp.abs(x - y))) for x, y in zip(la, lb) if x.size] + [0.0])


def bank_leaves(module):
    leaves, _ = jax.tree_util.tree_flatten_with_path(module)
    return [(jax.tree_util.keystr(path), np.asarray(leaf)) for path, leaf in leaves if _is_bank_path(path) and eqx.is_array(leaf)]
