"""Shared constructive generators.  Every draw goes through the Hypothesis `data` object."""
import itertools as it

import numpy as np
from hypothesis import strategies as st

from gv.ref import core as ref

_OPS = {d: ref.all_ops(d) for d in (1, 2, 3)}


def ops(d):
    return _OPS[d]


def draw_d(data, choices=(2, 3), weights=None):
    return data.draw(st.sampled_from(list(choices)), label="d")


def draw_shape(data, d, lo=1, hi=5, classes=("cubic", "two_equal", "distinct", "has1", "free")):
    """Spatial extents with a guaranteed share for each shape class."""
    cls = data.draw(st.sampled_from([c for c in classes if not (d == 1 and c in ("two_equal", "distinct"))] or ["free"]), label="shape_class")
    ext = st.integers(min_value=max(lo, 1), max_value=hi)
    if d == 1:
        n = 1 if (cls == "has1" and lo <= 1) else data.draw(ext)
        return (n,), cls
    if cls == "cubic":
        n = data.draw(ext)
        return (n,) * d, cls
    if cls == "distinct" and hi - max(lo, 1) + 1 >= d:
        vals = data.draw(st.permutations(list(range(max(lo, 1), hi + 1))))[:d]
        return tuple(vals), cls
    if cls == "two_equal" and hi > max(lo, 1):
        a = data.draw(ext)
        b = data.draw(ext.filter(lambda v: v != a))
        if d == 2:
            return (a, b), "distinct"
        pos = data.draw(st.integers(0, 2))
        shape = [a, a, a]
        shape[pos] = b
        return tuple(shape), cls
    if cls == "has1" and lo <= 1:
        shape = [data.draw(ext) for _ in range(d)]
        shape[data.draw(st.integers(0, d - 1))] = 1
        return tuple(shape), cls
    return tuple(data.draw(ext) for _ in range(d)), "free"


def shape_class(shape):
    s = set(shape)
    if len(shape) == 1:
        return "1d"
    if len(s) == 1:
        return "cubic"
    if len(s) == len(shape):
        return "distinct"
    return "two_equal"


def draw_type(data, d, kmax=3, label="type"):
    if d == 1:
        k = 0
    else:
        k = data.draw(st.integers(0, kmax), label=label + "_k")
    p = data.draw(st.integers(0, 1), label=label + "_p")
    return k, p


def draw_torus(data, d):
    kind = data.draw(st.sampled_from(["all", "none", "mixed"]), label="torus_kind")
    if kind == "all":
        return (True,) * d
    if kind == "none":
        return (False,) * d
    return tuple(data.draw(st.booleans()) for _ in range(d))


def draw_g(data, d, label="g"):
    return data.draw(st.integers(0, len(_OPS[d]) - 1), label=label)


def draw_signature(data, d, kmax=2, min_types=1, max_types=3, cmax=3, distinct_channels=False, parities=(0, 1)):
    """A list of ((k,p), channels) in a drawn storage order."""
    all_types = [(k, p) for k in range(0, (kmax if d > 1 else 0) + 1) for p in parities]
    n = data.draw(st.integers(min_types, min(max_types, len(all_types))), label="n_types")
    types = data.draw(st.permutations(all_types), label="types")[:n]
    if distinct_channels:
        chans = data.draw(st.permutations(list(range(1, max(cmax, n) + 1))), label="channels")[:n]
    else:
        chans = [data.draw(st.integers(1, cmax), label="c") for _ in range(n)]
    return [[list(t), int(c)] for t, c in zip(types, chans)]


def sig_tuple(sig):
    """JSON signature -> library Signature-shaped tuple."""
    return tuple(((int(k), int(p)), int(c)) for (k, p), c in sig)


def ident_array(shape, start=1):
    n = int(np.prod(shape)) if len(shape) else 1
    return (np.arange(n, dtype=np.int64) + start).reshape(shape)


def rng_ints(seed, shape, B=3):
    return np.random.default_rng(int(seed)).integers(-B, B + 1, size=shape).astype(np.int64)


def rng_normal(seed, shape):
    return np.random.default_rng(int(seed)).standard_normal(size=shape)


def basis(shape):
    n = int(np.prod(shape))
    return np.eye(n, dtype=np.int64).reshape((n,) + tuple(shape))


def perm_class(g):
    sigma, s = ref.perm_signs(g)
    d = len(sigma)
    moved = sum(1 for i in range(d) if sigma[i] != i)
    return {0: "diag", 2: "swap", 3: "3cycle"}.get(moved, "perm")
