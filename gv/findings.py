"""Known findings: committed file, never written at run time."""
import json
import os

ROOT = os.path.dirname(os.path.dirname(os.path.abspath(__file__)))
PATH = os.path.join(ROOT, "known_findings.json")


def _load():
    if not os.path.exists(PATH):
        return []
    with open(PATH) as f:
        return json.load(f).get("findings", [])


def known_entries(pid):
    """Entries with status 'known' for this property: dict(key, what, replay)."""
    return [e for e in _load() if e.get("status") == "known" and e.get("property") == pid]


def known_keys(pid):
    return {e["key"] for e in known_entries(pid)}
