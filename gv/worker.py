"""One shard of a check: exhaustive slice + seeded Hypothesis run, results written as JSON."""
import hashlib
import importlib
import json
import os
import sys
import time
import traceback


def derive_seed(seed, pid, shard):
    h = hashlib.sha256(f"{seed}/{pid}/{shard}".encode()).hexdigest()
    return int(h[:15], 16)


class Stats:
    def __init__(self):
        self.evaluations = 0
        self.sub_evaluations = 0
        self.nontrivial_keys = set()
        self.labels = {}
        self.samples = []
        self._sample_sigs = set()
        self.known_hits = {}
        self.violations = {}  # key -> dict(case,msg)
        self.skipped_budget = 0
        self.exhaustive_cases = 0
        self.generated = 0

    def record(self, case, res, max_samples=8):
        from gv.common import case_hash

        self.evaluations += 1
        self.sub_evaluations += res.get("evals", 1)
        for lab in res["labels"]:
            self.labels[lab] = self.labels.get(lab, 0) + 1
        if res["nontrivial"]:
            self.labels["_nontrivial"] = self.labels.get("_nontrivial", 0) + 1
            self.nontrivial_keys.add(case_hash(res["key"]))
        sig = tuple(res["labels"])
        n_triv = sum(1 for x in self.samples if not x["nontrivial"])
        room = len(self.samples) < max_samples and (res["nontrivial"] or n_triv < 2)
        if room and sig not in self._sample_sigs:
            self._sample_sigs.add(sig)
            s = json.dumps(case, default=str)
            if len(s) > 1500:
                s = s[:1500] + "...(truncated)"
            self.samples.append({"case": s, "labels": res["labels"], "nontrivial": res["nontrivial"]})


CUR_PATH = None
SKIP = set()
ABORTED = []


class Probe:
    """Persistent sacrificial child process for cases that may abort in native code."""

    def __init__(self, pid):
        self.pid = pid
        self.proc = None

    def start(self):
        import subprocess

        self.proc = subprocess.Popen(
            [sys.executable, "-m", "gv.probe", self.pid], stdin=subprocess.PIPE, stdout=subprocess.PIPE,
            stderr=subprocess.DEVNULL, text=True, bufsize=1,
        )
        line = self.proc.stdout.readline()
        if not line.startswith("READY"):
            raise RuntimeError("probe child did not start")

    def run(self, case):
        from gv.common import result, HarnessError

        if self.proc is None or self.proc.poll() is not None:
            self.start()
        try:
            self.proc.stdin.write(json.dumps(case, default=str) + "\n")
            self.proc.stdin.flush()
            line = self.proc.stdout.readline()
        except (BrokenPipeError, OSError):
            line = ""
        if line.startswith("RES "):
            return json.loads(line[4:])
        if line.startswith("ERR "):
            raise HarnessError("probe child: " + line[4:])
        rc = self.proc.wait()
        self.proc = None
        ABORTED.append({"returncode": rc, "case": case})
        return result(None, False, "native-abort", ["native_abort_excluded"])

    def close(self):
        if self.proc is not None and self.proc.poll() is None:
            self.proc.stdin.close()
            self.proc.wait()


PROBE = None


_CASES_RUN = [0]


def run_maybe_probed(mod, case):
    global PROBE
    # network-level properties compile new executables for every case; dropping the compilation caches every few cases keeps
    # a long-running shard from exhausting memory maps (segfaults inside XLA were observed after ~25 training cases)
    every = getattr(mod, "CLEAR_CACHES_EVERY", 0)
    _CASES_RUN[0] += 1
    if every and _CASES_RUN[0] % every == 0:
        import jax

        jax.clear_caches()
    if hasattr(mod, "is_risky") and mod.is_risky(case):
        if PROBE is None:
            PROBE = Probe(mod.PID)
        return PROBE.run(case)
    return run_classified(mod, case)


def run_classified(mod, case):
    """run_case with library exceptions turned into violations, harness errors re-raised."""
    from gv.common import classify_exception, result, viol, HarnessError

    if CUR_PATH is not None:  # so that a hard crash (abort inside XLA) can be attributed to a case
        from gv.common import case_hash

        if case_hash(case) in SKIP:
            return result(None, False, "skipped-hard-crash", ["skipped_after_process_abort"])
        with open(CUR_PATH, "w") as f:
            json.dump(case, f, default=str)

    try:
        return mod.run_case(case)
    except HarnessError:
        raise
    except Exception as exc:  # noqa: BLE001
        key = classify_exception(exc)
        if key is None:
            raise
        msg = "".join(traceback.format_exception_only(type(exc), exc)).strip()
        return result(viol(key, "library raised on an accepted input: " + msg), True, "exception", ["exception"])


def work(pid, tier, seed, shard, nshards, outpath):
    t0 = time.monotonic()
    global CUR_PATH
    CUR_PATH = outpath + ".cur"
    skipfile = outpath + ".skip"
    if os.path.exists(skipfile):
        with open(skipfile) as f:
            SKIP.update(l.strip() for l in f if l.strip())
    import hypothesis
    from hypothesis import HealthCheck, Phase, given, settings, strategies as st

    from gv import findings

    import ginjax

    expect = os.environ.get("GINJAX_SRC_EXPECT")
    if expect and not os.path.abspath(ginjax.__file__).startswith(os.path.abspath(expect)):
        raise RuntimeError(f"ginjax imported from {ginjax.__file__}, expected under {expect}")
    mod = importlib.import_module("gv.props." + pid.lower())
    cfg = dict(mod.CONFIG[tier])
    known = findings.known_keys(pid)
    stats = Stats()
    if hasattr(mod, "setup"):
        mod.setup(tier)
    budget = float(os.environ.get("VERIF_TIME_BUDGET", cfg.get("time_budget_s", 1e9)))
    shrink_budget = float(cfg.get("shrink_s", 40))

    def handle(case, res, phase):
        stats.record(case, res)
        v = res["violation"]
        if v is None:
            return None
        if v["key"] in known:
            stats.known_hits[v["key"]] = stats.known_hits.get(v["key"], 0) + 1
            return None
        return v

    # ---- regression corpus: shrunk failing inputs of earlier findings, seeded changes and mutants (seconds-long replay tier)
    import glob

    corpus = []
    for f in sorted(glob.glob(os.path.join(os.path.dirname(os.path.dirname(os.path.abspath(__file__))), "regress", pid, "*.json"))):
        try:
            with open(f) as fh:
                corpus.append((os.path.basename(f), json.load(fh)["case"]))
        except (OSError, ValueError, KeyError):
            raise RuntimeError(f"unreadable regression case {f}")
    for i, (name, case) in enumerate(corpus):
        if i % nshards != shard:
            continue
        res = run_maybe_probed(mod, case)
        res["labels"] = sorted(set(res["labels"]) | {"regression_corpus"})
        stats.exhaustive_cases += 1
        v = handle(case, res, "corpus")
        if v is not None and v["key"] not in stats.violations:
            stats.violations[v["key"]] = {"case": case, "msg": f"[regression corpus {name}] " + v["msg"], "shrunk": True}

    # ---- exhaustive slice
    if hasattr(mod, "enumerate_cases"):
        cases = mod.enumerate_cases(tier)
        for i, case in enumerate(cases):
            if i % nshards != shard:
                continue
            if time.monotonic() - t0 > budget:
                stats.skipped_budget += 1
                continue
            res = run_maybe_probed(mod, case)
            stats.exhaustive_cases += 1
            v = handle(case, res, "enumerate")
            if v is not None and v["key"] not in stats.violations:
                stats.violations[v["key"]] = {"case": case, "msg": v["msg"], "shrunk": False}

    # ---- generated part
    total = int(os.environ.get("VERIF_EXAMPLES_OVERRIDE", cfg.get("examples", 0)))
    n = total // nshards + (1 if shard < total % nshards else 0)
    state = {"first_key": None, "fail_start": None, "expired": False, "best": None, "calls": 0}
    # Hypothesis always starts with the all-minimal example; running it in every shard would waste 1/n of a small budget
    # on 16 copies of the same case, so only shard 0 executes it
    skip_first = shard > 0 and n > 0

    class ViolationFound(Exception):
        pass

    if n > 0 and hasattr(mod, "draw_case"):

        @hypothesis.seed(derive_seed(seed, pid, shard))
        @settings(
            max_examples=n + (1 if skip_first else 0),
            database=None,
            deadline=None,
            derandomize=False,
            report_multiple_bugs=False,
            suppress_health_check=[HealthCheck.too_slow, HealthCheck.data_too_large, HealthCheck.large_base_example],
            phases=[Phase.generate, Phase.shrink],
            verbosity=hypothesis.Verbosity.quiet,
        )
        @given(st.data())
        def test(data):
            # every early return still draws the case: Hypothesis requires data generation to be a function of the choice
            # sequence only (otherwise FlakyStrategyDefinition when it replays a prefix)
            if state["expired"]:
                mod.draw_case(data, tier)
                return
            state["calls"] += 1
            if skip_first and state["calls"] == 1:
                mod.draw_case(data, tier)
                return
            now = time.monotonic()
            if state["fail_start"] is not None and now - state["fail_start"] > shrink_budget:
                state["expired"] = True
                mod.draw_case(data, tier)
                return
            if state["fail_start"] is None and now - t0 > budget:
                stats.skipped_budget += 1
                mod.draw_case(data, tier)
                return
            case = mod.draw_case(data, tier)
            res = run_maybe_probed(mod, case)
            if state["fail_start"] is None:
                stats.generated += 1
            v = handle(case, res, "generate")
            if v is None:
                return
            if state["first_key"] is None:
                state["first_key"] = v["key"]
                state["fail_start"] = time.monotonic()
            if v["key"] != state["first_key"]:
                # another root cause met while shrinking: keep it as its own bucket
                if v["key"] not in stats.violations:
                    stats.violations[v["key"]] = {"case": case, "msg": v["msg"], "shrunk": False}
                return
            state["best"] = {"case": case, "msg": v["msg"], "shrunk": True}
            raise ViolationFound(v["key"])

        try:
            test()
        except ViolationFound:
            pass
        except hypothesis.errors.FailedHealthCheck:
            raise
        except Exception as exc:  # Flaky after the shrink budget expired, etc.
            if state["best"] is None:
                raise
        if state["best"] is not None:
            stats.violations[state["first_key"]] = state["best"]

    out = {
        "shard": shard,
        "evaluations": stats.evaluations,
        "sub_evaluations": stats.sub_evaluations,
        "nontrivial_keys": sorted(stats.nontrivial_keys),
        "labels": stats.labels,
        "samples": stats.samples,
        "known_hits": stats.known_hits,
        "violations": stats.violations,
        "skipped_budget": stats.skipped_budget,
        "exhaustive_cases": stats.exhaustive_cases,
        "generated": stats.generated,
        "native_aborts": ABORTED,
        "wall_s": time.monotonic() - t0,
    }
    if PROBE is not None:
        PROBE.close()
    tmp = outpath + ".tmp"
    with open(tmp, "w") as f:
        json.dump(out, f, default=str)
    os.replace(tmp, outpath)


def main():
    pid, tier, seed, shard, nshards, outpath, logpath = sys.argv[1:8]
    from gv.common import quiet_stdout

    try:
        with quiet_stdout(logpath):
            work(pid, tier, int(seed), int(shard), int(nshards), outpath)
    except Exception:  # noqa: BLE001
        with open(logpath, "a") as f:
            f.write("\nHARNESS ERROR\n" + traceback.format_exc())
        sys.stderr.write(traceback.format_exc())
        sys.exit(2)


if __name__ == "__main__":
    main()
