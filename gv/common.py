"""Shared helpers for property modules: results, library-exception classification, comparison."""
import hashlib
import json
import os
import sys
import traceback

import numpy as np

VERIF_ROOT = os.path.dirname(os.path.dirname(os.path.abspath(__file__)))


class HarnessError(Exception):
    """Something is wrong with the machinery itself (never a VIOLATION)."""


def viol(key, msg, **extra):
    d = {"key": key, "msg": str(msg)[:2000]}
    d.update(extra)
    return d


def result(violation=None, nontrivial=True, key="", labels=(), evals=1, info=None):
    return {
        "violation": violation,
        "nontrivial": bool(nontrivial),
        "key": key if isinstance(key, str) else json.dumps(key, sort_keys=True, default=str),
        "labels": sorted(set(labels)),
        "evals": int(evals),
        "info": info,
    }


def case_hash(obj):
    return hashlib.sha1(json.dumps(obj, sort_keys=True, default=str).encode()).hexdigest()[:16]


def lib_src_dir():
    import ginjax

    return os.path.dirname(os.path.abspath(ginjax.__file__))


def classify_exception(exc):
    """If the exception passed through library (ginjax) frames it is a property violation
    (the library crashed on an input the generator only produces when it is documented as
    accepted); otherwise it is a harness error.  Returns a root-cause key or None."""
    tb = traceback.extract_tb(exc.__traceback__)
    libdir = lib_src_dir()
    inner = None
    for fr in tb:
        if os.path.abspath(fr.filename).startswith(libdir):
            inner = fr
    if inner is None:
        return None
    rel = os.path.relpath(inner.filename, libdir)
    return f"exception/{type(exc).__name__}@{rel}:{inner.name}"


def exact_equal(a, b):
    a = np.asarray(a)
    b = np.asarray(b)
    return a.shape == b.shape and bool(np.array_equal(a, b))


def first_diff(a, b):
    a = np.asarray(a)
    b = np.asarray(b)
    if a.shape != b.shape:
        return f"shape {a.shape} != {b.shape}"
    idx = np.argwhere(a != b)
    if len(idx) == 0:
        return "equal"
    i = tuple(int(v) for v in idx[0])
    return f"{len(idx)} entries differ; first at {i}: got {a[i]!r} expected {b[i]!r}"


def rel_defect(a, b, floor=None):
    """max|a-b| / (max|b| + 1); with `floor`: max|a-b| / max(max|a|, max|b|, floor) (for outputs that may be small)."""
    a = np.asarray(a, dtype=np.float64)
    b = np.asarray(b, dtype=np.float64)
    if a.shape != b.shape:
        return float("inf")
    if a.size == 0:
        return 0.0
    if not (np.isfinite(a).all() and np.isfinite(b).all()):
        return float("inf")
    if floor is not None:
        return float(np.max(np.abs(a - b)) / max(np.max(np.abs(a)), np.max(np.abs(b)), floor))
    return float(np.max(np.abs(a - b)) / (np.max(np.abs(b)) + 1.0))


FLOAT_TOL = 2e-3


def assert_exact_bound(*arrays, bound=2**24):
    """Float32 arithmetic on integers is exact while every intermediate stays below 2^24."""
    for a in arrays:
        a = np.asarray(a)
        if a.size and np.max(np.abs(a)) >= bound:
            raise HarnessError(f"integer magnitude {np.max(np.abs(a))} exceeds exact float32 range")


class quiet_stdout:
    """Redirect fd 1 (library prints WARNING lines) to a log file for the duration."""

    def __init__(self, path):
        self.path = path

    def __enter__(self):
        sys.stdout.flush()
        self._saved = os.dup(1)
        self._f = open(self.path, "ab")
        os.dup2(self._f.fileno(), 1)
        return self

    def __exit__(self, *a):
        sys.stdout.flush()
        os.dup2(self._saved, 1)
        os.close(self._saved)
        self._f.close()
