"""Launcher: shards a check over worker processes, merges, writes evidence, sets exit code.

exit 0: property held on everything explored (KNOWN-FINDING lines allowed)
exit 1: VIOLATION property=<id> replay=<path> printed
exit 2: harness error (never prints VIOLATION)
"""
import argparse
import importlib
import json
import os
import shutil
import subprocess
import sys
import time

ROOT = os.path.dirname(os.path.dirname(os.path.abspath(__file__)))


def child_env():
    env = dict(os.environ)
    src = os.environ.get("GINJAX_SRC", "/repo/src")
    deps = os.path.join(ROOT, ".deps")
    parts = [ROOT, src]
    if os.path.isdir(deps):
        parts.append(deps)
    env["PYTHONPATH"] = os.pathsep.join(parts)
    env["PYTHONHASHSEED"] = "0"
    env["JAX_PLATFORMS"] = "cpu"
    env["XLA_FLAGS"] = "--xla_cpu_multi_thread_eigen=false intra_op_parallelism_threads=1"
    env["OMP_NUM_THREADS"] = "1"
    env["OPENBLAS_NUM_THREADS"] = "1"
    env["MKL_NUM_THREADS"] = "1"
    env["GINJAX_VERIF"] = "1"
    env["WANDB_MODE"] = "disabled"
    env["MPLBACKEND"] = "Agg"
    env["TF_CPP_MIN_LOG_LEVEL"] = "3"
    env["GINJAX_SRC_EXPECT"] = src
    return env


def write_replay(pid, key, rec, seed, tier):
    from gv.common import case_hash

    d = os.path.join(ROOT, "replay" + os.environ.get("VERIF_EVIDENCE_SUFFIX", ""), pid)
    os.makedirs(d, exist_ok=True)
    name = case_hash([key, rec["case"]]) + ".json"
    path = os.path.join(d, name)
    with open(path, "w") as f:
        json.dump(
            {"property": pid, "key": key, "msg": rec["msg"], "shrunk": rec.get("shrunk"), "seed": seed, "tier": tier, "case": rec["case"]},
            f,
            indent=1,
            default=str,
        )
    return os.path.relpath(path, ROOT)


def do_replay(pid, path):
    """Run one stored case in-process (used by --replay and by the known-finding pass)."""
    from gv.worker import run_classified

    mod = importlib.import_module("gv.props." + pid.lower())
    with open(path) as f:
        rec = json.load(f)
    if hasattr(mod, "setup"):
        mod.setup("quick")
    res = run_classified(mod, rec["case"])
    return rec, res


def replay_subprocess(pid, path, env, logpath):
    out = subprocess.run(
        [sys.executable, "-m", "gv.runner", pid, "--replay-json", path],
        env=env,
        cwd=ROOT,
        stdout=subprocess.PIPE,
        stderr=open(logpath, "ab"),
        text=True,
    )
    if out.returncode not in (0,):
        return None
    for line in out.stdout.splitlines():
        if line.startswith("REPLAY-RESULT "):
            return json.loads(line[len("REPLAY-RESULT ") :])
    return None


def main(argv=None):
    ap = argparse.ArgumentParser()
    ap.add_argument("pid")
    ap.add_argument("--tier", default=os.environ.get("VERIF_TIER", "quick"))
    ap.add_argument("--replay")
    ap.add_argument("--replay-json")
    ap.add_argument("--shards", type=int)
    ap.add_argument("--examples", type=int)
    args = ap.parse_args(argv)
    pid = args.pid.upper()
    tier = args.tier if args.tier in ("quick", "thorough") else "quick"
    try:
        seed = int(os.environ.get("VERIF_SEED", "1"))
    except ValueError:
        seed = 1
    env = child_env()

    if args.replay_json:  # internal: run in the prepared environment, print machine-readable result
        from gv.common import quiet_stdout

        os.makedirs(os.path.join(ROOT, ".work", pid), exist_ok=True)
        with quiet_stdout(os.path.join(ROOT, ".work", pid, "replay.log")):
            rec, res = do_replay(pid, args.replay_json)
        print("REPLAY-RESULT " + json.dumps({"violation": res["violation"]}, default=str))
        return 0

    if args.replay:
        os.makedirs(os.path.join(ROOT, ".work", pid), exist_ok=True)
        r = replay_subprocess(pid, args.replay, env, os.path.join(ROOT, ".work", pid, "replay.err"))
        if r is None:
            print(f"HARNESS-ERROR replay of {args.replay} could not be run")
            return 2
        if r["violation"] is not None:
            print(f"replay: {r['violation']['key']}: {r['violation']['msg']}")
            print(f"VIOLATION property={pid} replay={args.replay}")
            return 1
        print(f"replay of {args.replay}: property holds on this case")
        return 0

    t0 = time.time()
    sys.path.insert(0, ROOT)
    # the parent does not import jax/ginjax; it reads static config from the module source lazily via a child
    work = os.path.join(ROOT, ".work", pid + os.environ.get("VERIF_EVIDENCE_SUFFIX", ""))  # mutant runs get their own scratch dir
    shutil.rmtree(work, ignore_errors=True)
    os.makedirs(work, exist_ok=True)

    # config lives in the property module; importing it in the parent would import jax, so ask a child
    q = subprocess.run(
        [sys.executable, "-c", f"import json,importlib;m=importlib.import_module('gv.props.{pid.lower()}');print('CFG '+json.dumps(dict(config=m.CONFIG,rule=m.RULE,assumptions=m.ASSUMPTIONS,technique=getattr(m,'TECHNIQUE',''),exhaustive=getattr(m,'EXHAUSTIVE',{{}}))))"],
        env=env,
        cwd=ROOT,
        stdout=subprocess.PIPE,
        stderr=subprocess.PIPE,
        text=True,
    )
    cfgline = [l for l in q.stdout.splitlines() if l.startswith("CFG ")]
    if q.returncode != 0 or not cfgline:
        sys.stderr.write(q.stderr)
        print(f"HARNESS-ERROR cannot load property module for {pid}")
        return 2
    meta = json.loads(cfgline[0][4:])
    cfg = meta["config"][tier]
    nshards = args.shards or int(cfg.get("shards", 16))
    if args.examples is not None:
        env["VERIF_EXAMPLES_OVERRIDE"] = str(args.examples)

    # ---- known findings: replay each stored case first
    from gv import findings

    known_lines = []
    for ent in findings.known_entries(pid):
        r = replay_subprocess(pid, os.path.join(ROOT, ent["replay"]), env, os.path.join(work, "known.err"))
        if r is None:
            print(f"HARNESS-ERROR known finding {ent['replay']} could not be replayed")
            return 2
        if r["violation"] is not None and r["violation"]["key"] == ent["key"]:
            known_lines.append(f"KNOWN-FINDING: property={pid} {ent['what']}")
        elif r["violation"] is not None:
            # stored input now fails for another reason: that is a new violation
            print(f"VIOLATION property={pid} replay={ent['replay']}")
            print(f"  known-finding input fails with a different root cause: {r['violation']['key']}")
            return 1
        else:
            known_lines.append(f"NOTE: known finding no longer reproduces: property={pid} {ent['what']}")

    def launch(shard):
        outp = os.path.join(work, f"shard{shard}.json")
        logp = os.path.join(work, f"shard{shard}.log")
        return subprocess.Popen(
            [sys.executable, "-m", "gv.worker", pid, tier, str(seed), str(shard), str(nshards), outp, logp],
            env=env,
            cwd=ROOT,
            stdout=subprocess.DEVNULL,
            stderr=open(os.path.join(work, f"shard{shard}.err"), "ab"),
        ), outp

    procs = [(launch(shard), shard) for shard in range(nshards)]
    harness_err = False
    results = []
    aborted_cases = []
    for (p, outp), shard in procs:
        rc = p.wait()
        restarts = 0
        # a negative return code is a process abort inside native code (e.g. an XLA CHECK failure): the case that
        # was running is recorded, skipped, and the shard is re-run with the same seed (at most 3 times)
        while rc < 0 and restarts < 6 and os.path.exists(outp + ".cur"):
            from gv.common import case_hash

            with open(outp + ".cur") as f:
                cur = json.load(f)
            aborted_cases.append({"shard": shard, "signal": -rc, "case": cur})
            with open(outp + ".skip", "a") as f:
                f.write(case_hash(cur) + "\n")
            restarts += 1
            p, outp = launch(shard)
            rc = p.wait()
        if rc != 0 or not os.path.exists(outp):
            harness_err = True
            sys.stderr.write(f"shard {shard} exited {rc}\n")
            try:
                with open(os.path.join(work, f"shard{shard}.err")) as f:
                    sys.stderr.write(f.read()[-3000:])
            except OSError:
                pass
            continue
        with open(outp) as f:
            results.append(json.load(f))
    if harness_err:
        print(f"HARNESS-ERROR {pid}: a worker failed (see .work/{pid}/)")
        return 2

    evaluations = sum(r["evaluations"] for r in results)
    sub = sum(r["sub_evaluations"] for r in results)
    keys = set()
    labels = {}
    samples = []
    known_hits = {}
    violations = {}
    for r in results:
        keys.update(r["nontrivial_keys"])
        for k, v in r["labels"].items():
            labels[k] = labels.get(k, 0) + v
        for k, v in r["known_hits"].items():
            known_hits[k] = known_hits.get(k, 0) + v
        for k, v in r["violations"].items():
            if k not in violations or (v.get("shrunk") and len(json.dumps(v["case"], default=str)) < len(json.dumps(violations[k]["case"], default=str))):
                violations[k] = v
    # samples: round robin over shards, prefer distinct label signatures
    seen = set()
    for want_nontrivial in (True, False):
        for i in range(8):
            for r in results:
                if i < len(r["samples"]):
                    s = r["samples"][i]
                    sig = tuple(s["labels"])
                    if s["nontrivial"] == want_nontrivial and sig not in seen and len(samples) < (8 if want_nontrivial else 10):
                        seen.add(sig)
                        samples.append(s)
    for r in results:
        for a in r.get("native_aborts", []):
            aborted_cases.append({"shard": r["shard"], "signal": -a["returncode"] if a["returncode"] and a["returncode"] < 0 else a["returncode"], "case": a["case"], "isolated": True})
    skipped = sum(r["skipped_budget"] for r in results)
    exhaustive_cases = sum(r["exhaustive_cases"] for r in results)
    wall = time.time() - t0

    vio_paths = []
    for k, rec in sorted(violations.items()):
        path = write_replay(pid, k, rec, seed, tier)
        vio_paths.append((k, path, rec["msg"]))

    exh = meta.get("exhaustive", {}).get(tier)
    evidence = {
        "property_id": pid,
        "tier": tier,
        "seed": seed,
        "level": "exploration",
        "coverage": {
            "evaluations": evaluations,
            "distinct_nontrivial": len(keys),
            "rule": meta["rule"],
            "samples": samples,
            "sub_evaluations": sub,
            "labels": dict(sorted(labels.items())),
            "shards": nshards,
            "exhaustive_part_cases": exhaustive_cases,
            "generated_cases": sum(r["generated"] for r in results),
            "skipped_after_time_budget": skipped,
            "excluded_by_known_finding": known_hits,
            "technique": meta.get("technique", ""),
            "process_aborts_in_native_code": aborted_cases,
        },
        "assumptions": meta["assumptions"],
        "wall_s": round(wall, 2),
        "violations": len(vio_paths),
    }
    if exh and skipped == 0:
        evidence["coverage"]["exhaustive"] = True
        evidence["coverage"]["exhaustive_scope"] = exh
    os.makedirs(os.path.join(ROOT, "evidence"), exist_ok=True)
    suffix = os.environ.get("VERIF_EVIDENCE_SUFFIX", "")
    with open(os.path.join(ROOT, "evidence", f"{pid}.json{suffix}"), "w") as f:
        json.dump(evidence, f, indent=1, default=str)

    for line in known_lines:
        print(line)
    print(
        f"{pid} tier={tier} seed={seed}: {evaluations} cases ({sub} sub-evaluations), "
        f"{len(keys)} distinct non-trivial, {len(vio_paths)} violation bucket(s), "
        f"{sum(known_hits.values())} hits on known findings, {skipped} skipped after time budget, {wall:.1f}s"
    )
    for a in aborted_cases:
        if not a.get("isolated"):
            print(f"NOTE: process abort (signal {a['signal']}) in native code while running a case on shard {a['shard']}; case skipped and recorded in the evidence")
    if any(a.get("isolated") for a in aborted_cases):
        print(f"NOTE: {sum(1 for a in aborted_cases if a.get('isolated'))} case(s) aborted inside the XLA compiler in an isolated child process (image-dilated convolution); excluded and recorded in the evidence")
    if vio_paths:
        for k, path, msg in vio_paths:
            print(f"  {k}: {msg[:300]}")
            print(f"VIOLATION property={pid} replay={path}")
        return 1
    return 0


if __name__ == "__main__":
    try:
        rc = main()
    except Exception:  # noqa: BLE001
        import traceback

        traceback.print_exc()
        print("HARNESS-ERROR runner crashed")
        rc = 2
    sys.exit(rc)
