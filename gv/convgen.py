"""Constructive generator of convolution option sets (shared by C01, C04, C06, C11)."""
from hypothesis import strategies as st

from gv.ref import core as ref

PAD_KINDS = ["TORUS", "SAME", "VALID", "int", "explicit_sym", "explicit_asym", "None"]


def _scalar_or_tuple(data, d, lo, hi, label, allow_scalar=True):
    form = data.draw(st.sampled_from(["one", "scalar", "tuple"] if allow_scalar else ["one_t", "tuple"]), label=label + "_form")
    if form == "one":
        return 1
    if form == "one_t":
        return [1] * d
    if form == "scalar":
        return data.draw(st.integers(lo, hi), label=label)
    return [data.draw(st.integers(lo, hi), label=label) for _ in range(d)]


def draw_conv_options(data, d, symmetric_only=False, unit_stride=False, max_filter=4, max_extra=3, max_ext=None,
                      pad_kinds=None, allow_lhs=True, fixed_fshape=None, max_stride=3):
    """Returns a JSON-able dict:
    fshape, padding (str|int|list of pairs|None), pad_kind, is_torus (bool|list), stride, rhs, lhs (None|list), shape."""
    kinds = pad_kinds or [k for k in PAD_KINDS if not (symmetric_only and k == "explicit_asym")]
    if "TORUS" in kinds and (fixed_fshape is None or fixed_fshape[0] % 2 == 1) and data.draw(st.integers(0, 9), label="dilated_torus_class") == 0:
        # forced class: fully toroidal image whose extents are multiples of an isotropic filter dilation >= 2
        r = data.draw(st.sampled_from([2, 2, 3]), label="r")
        m = fixed_fshape[0] if fixed_fshape is not None else 3
        shape = [r * data.draw(st.integers(1, 2 if (d == 2 or r == 2) else 1), label="multiple") for _ in range(d)]
        return {"fshape": [m] * d, "pad_kind": "TORUS", "padding": data.draw(st.sampled_from(["TORUS", None]), label="torus_or_none"),
                "is_torus": data.draw(st.sampled_from([True, [True] * d]), label="torus_repr"), "stride": 1,
                "rhs": data.draw(st.sampled_from([r, [r] * d]), label="rhs_repr"), "lhs": None, "shape": shape}
    pad_kind = data.draw(st.sampled_from(kinds), label="pad_kind")
    literal = pad_kind in ("int", "explicit_sym", "explicit_asym")
    # filter extents: even only with literal padding
    fform = data.draw(st.sampled_from(["odd_square", "odd", "any", "any"] if literal else ["odd_square", "odd_square", "odd"]), label="filter_form")
    if fixed_fshape is not None:
        fshape = list(fixed_fshape)
    elif fform == "odd_square":
        m = data.draw(st.sampled_from([1, 3, 3, 3] if max_filter < 5 else [1, 3, 3, 5]), label="M")
        fshape = [m] * d
    elif fform == "odd":
        fshape = [data.draw(st.sampled_from([1, 3]), label="M_ax") for _ in range(d)]
    else:
        fshape = [data.draw(st.integers(1, max_filter), label="M_ax") for _ in range(d)]
    tform = data.draw(st.sampled_from(["true", "false", "tuple", "tuple"]), label="torus_form")
    if tform == "true":
        is_torus = True
    elif tform == "false":
        is_torus = False
    else:
        is_torus = [data.draw(st.booleans(), label="torus_ax") for _ in range(d)]
    stride = 1 if unit_stride else _scalar_or_tuple(data, d, 1, max_stride, "stride")
    rhs = _scalar_or_tuple(data, d, 1, 3, "rhs")
    lhs = None
    if allow_lhs and data.draw(st.integers(0, 3), label="use_lhs") == 0:
        lhs = [data.draw(st.integers(1, 3), label="lhs") for _ in range(d)]
    if pad_kind == "int":
        padding = data.draw(st.integers(0, 3), label="pad_int")
    elif pad_kind == "explicit_sym":
        padding = [[q, q] for q in (data.draw(st.integers(0, 3), label="pad_ax") for _ in range(d))]
    elif pad_kind == "explicit_asym":
        padding = [[data.draw(st.integers(0, 3), label="pad_lo"), data.draw(st.integers(0, 3), label="pad_hi")] for _ in range(d)]
    elif pad_kind == "None":
        padding = None
    else:
        padding = pad_kind
    opts = {"fshape": fshape, "pad_kind": pad_kind, "padding": padding, "is_torus": is_torus, "stride": stride, "rhs": rhs, "lhs": lhs}
    # image extents: the smallest extent giving a non-empty output, plus a drawn surplus
    cap = max_ext or (6 if d == 2 else 4)
    shape = []
    for ax in range(d):
        n = 1
        while True:
            test_shape = [1] * d
            test_shape[ax] = n
            o = ref.out_size(d, test_shape, fshape, lib_torus(opts), lib_tuple(stride, d), lib_padding(opts), lhs, lib_tuple(rhs, d))
            if o[ax] > 0:
                break
            n += 1
        extra = data.draw(st.integers(0, max(0, min(max_extra, cap - n))), label="extent_extra")
        shape.append(n + extra)
    opts["shape"] = shape
    return opts


def lib_tuple(v, d):
    """JSON list -> tuple (library expects tuples), scalar stays."""
    if isinstance(v, list):
        return tuple(int(x) for x in v)
    return v


def lib_torus(opts):
    t = opts["is_torus"]
    return tuple(bool(x) for x in t) if isinstance(t, list) else bool(t)


def lib_padding(opts):
    p = opts["padding"]
    if isinstance(p, list):
        return tuple((int(a), int(b)) for a, b in p)
    return p


def lib_lhs(opts):
    return None if opts["lhs"] is None else tuple(int(x) for x in opts["lhs"])


def option_labels(opts, d):
    labs = ["pad_" + opts["pad_kind"]]
    t = opts["is_torus"]
    if isinstance(t, list):
        labs.append("torus_mixed" if len(set(t)) > 1 else "torus_tuple_uniform")
    else:
        labs.append("torus_bool")
    if any(m % 2 == 0 for m in opts["fshape"]):
        labs.append("filter_even")
    if len(set(opts["fshape"])) > 1:
        labs.append("filter_nonsquare")
    if len(set(opts["shape"])) > 1:
        labs.append("image_nonsquare")
    s = opts["stride"]
    if (isinstance(s, list) and max(s) > 1) or (not isinstance(s, list) and s > 1):
        labs.append("stride>1")
    r = opts["rhs"]
    if (isinstance(r, list) and max(r) > 1) or (not isinstance(r, list) and r > 1):
        labs.append("rhs>1")
    if opts["lhs"] is not None and max(opts["lhs"]) > 1:
        labs.append("lhs>1")
    return labs


def kwargs_for_lib(opts, d):
    return dict(
        is_torus=lib_torus(opts),
        stride=lib_tuple(opts["stride"], d),
        padding=lib_padding(opts),
        lhs_dilation=lib_lhs(opts),
        rhs_dilation=lib_tuple(opts["rhs"], d),
    )


def kwargs_for_ref(opts, d):
    return dict(
        is_torus=lib_torus(opts),
        stride=lib_tuple(opts["stride"], d),
        padding=lib_padding(opts),
        lhs=lib_lhs(opts),
        rhs=lib_tuple(opts["rhs"], d),
    )


def transport_opts(opts, g, d):
    """g.gamma: every per-axis entry travels with its axis."""
    out = dict(opts)
    for name in ("fshape", "shape"):
        out[name] = list(ref.transport(opts[name], g))
    for name in ("is_torus", "stride", "rhs", "lhs", "padding"):
        v = opts[name]
        if isinstance(v, list):
            out[name] = [list(x) if isinstance(x, (list, tuple)) else x for x in ref.transport(v, g)]
    return out
