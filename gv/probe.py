"""Sacrificial child: runs cases of a property read as JSON lines from stdin, answers JSON lines on fd 3-like pipe.

Used for case classes that are known to be able to abort the process inside native code (an XLA CHECK failure in the
CPU compiler for some strided + lhs-dilated convolutions): the abort then kills this child, not the shard."""
import importlib
import json
import os
import sys


def main():
    pid = sys.argv[1]
    out = os.fdopen(os.dup(1), "w")  # the real stdout pipe
    devnull = os.open(os.devnull, os.O_WRONLY)
    os.dup2(devnull, 1)  # library prints go nowhere
    from gv.worker import run_classified

    mod = importlib.import_module("gv.props." + pid.lower())
    if hasattr(mod, "setup"):
        mod.setup("quick")
    out.write("READY\n")
    out.flush()
    for line in sys.stdin:
        case = json.loads(line)
        try:
            res = run_classified(mod, case)
            out.write("RES " + json.dumps(res, default=str) + "\n")
        except Exception as exc:  # harness error inside the child
            out.write("ERR " + json.dumps(repr(exc)) + "\n")
        out.flush()


if __name__ == "__main__":
    main()
