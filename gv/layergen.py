"""Generation and reference evaluation of ConvContract layers (shared by C06 and C11)."""
import numpy as np
from hypothesis import strategies as st

import jax
import jax.numpy as jnp
import jax.random as random
import equinox as eqx
import ginjax.geometric as geom
import ginjax.ml as ml

from gv import convgen, gen, netgen
from gv.ref import core as ref

BIAS_MODES = ["auto", "mean", "scalar", True, False]


def draw_layer_case(data, d_choices=(2, 2, 3), symmetric_only=False, unit_stride=False, groups=("B", "SO", "C2")):
    d = data.draw(st.sampled_from(list(d_choices)), label="d")
    G = data.draw(st.sampled_from(list(groups)), label="G")
    M = data.draw(st.sampled_from([3, 3, 3, 2]), label="M")
    kmax = 2 if d == 2 else 1
    # channel counts: pairwise distinct (the class the property names) or one common count for all types (the
    # configuration in which a layer may take a fused "all blocks at once" path)
    distinct = data.draw(st.sampled_from([True, True, False]), label="distinct_channels")
    in_sig = gen.draw_signature(data, d, kmax=kmax, min_types=1, max_types=3, cmax=3, distinct_channels=distinct)
    out_sig = gen.draw_signature(data, d, kmax=kmax, min_types=1, max_types=3, cmax=3, distinct_channels=distinct)
    if not distinct:
        cin = data.draw(st.integers(1, 3), label="c_in")
        cout = data.draw(st.integers(1, 3), label="c_out")
        in_sig = [[t, cin] for t, _ in in_sig]
        out_sig = [[t, cout] for t, _ in out_sig]
    if M == 2:
        kinds = ["int", "explicit_sym"] + ([] if symmetric_only else ["explicit_asym"])
    else:
        kinds = ["TORUS", "SAME", "VALID", "int", "explicit_sym", "None"] + ([] if symmetric_only else ["explicit_asym"])
    opts = convgen.draw_conv_options(data, d, symmetric_only=symmetric_only, unit_stride=unit_stride, pad_kinds=kinds,
                                     fixed_fshape=[M] * d, max_extra=2, max_ext=5 if d == 2 else 4, max_stride=2)
    if isinstance(opts["is_torus"], bool):
        opts["is_torus"] = [opts["is_torus"]] * d  # multi-images carry tuples
    bias = data.draw(st.sampled_from([0, 1, 2, 3, 4]), label="bias_mode")
    return {"d": d, "G": G, "M": M, "in_sig": in_sig, "out_sig": out_sig, "opts": opts, "bias": bias,
            "wseed": data.draw(st.integers(0, 99999), label="wseed"), "xseed": data.draw(st.integers(0, 99999), label="xseed")}


def the_bank(case):
    """Only the filter orders this layer can use are generated (both parities, so that missing filters stay missing)."""
    d = case["d"]
    ks = sorted({s[0][0] + t[0][0] for s in case["in_sig"] for t in case["out_sig"]})
    return netgen.bank(d, case["G"], (case["M"],), tuple(ks), (0, 1), "one")


def build_layer(case, opts=None, int_weights=True):
    """Construct the library layer and replace weights / biases by drawn integers (nowhere near the initial values)."""
    d = case["d"]
    opts = opts or case["opts"]
    kw = convgen.kwargs_for_lib(opts, d)
    bank = the_bank(case)
    layer = ml.ConvContract(gen.sig_tuple(case["in_sig"]), gen.sig_tuple(case["out_sig"]), bank, BIAS_MODES[case["bias"]],
                            kw["stride"], kw["padding"], kw["lhs_dilation"], kw["rhs_dilation"], key=random.PRNGKey(case["wseed"]))
    rng = np.random.default_rng(case["wseed"])
    W = {}
    for s, sub in layer.weights.items():
        W[s] = {}
        for t, w in sub.items():
            vals = rng.integers(-3, 4, size=w.shape)
            if not vals.any():
                vals.reshape(-1)[0] = 1
            W[s][t] = vals
    Bv = {t: rng.integers(-3, 4, size=b.shape) + (rng.integers(-3, 4, size=b.shape) == 0) for t, b in layer.bias.items()}
    layer = eqx.tree_at(lambda m: m.weights, layer, {s: {t: jnp.asarray(v, dtype=jnp.float32) for t, v in sub.items()} for s, sub in W.items()})
    if layer.bias:
        layer = eqx.tree_at(lambda m: m.bias, layer, {t: jnp.asarray(v, dtype=jnp.float32) for t, v in Bv.items()})
    return layer, W, Bv


def reachable_targets(case):
    bank = the_bank(case)
    out = []
    for (tk, tp), c in gen.sig_tuple(case["out_sig"]):
        if any(((sk + tk), (sp_ + tp) % 2) in bank for (sk, sp_), _ in gen.sig_tuple(case["in_sig"])):
            out.append(((tk, tp), c))
    return out


def ref_layer_linear(case, X, W, opts=None):
    """Defining sum without bias. X: dict type -> int array (c, spatial, tensor). Returns dict type -> int64 array."""
    d = case["d"]
    opts = opts or case["opts"]
    rkw = convgen.kwargs_for_ref(opts, d)
    bank = {t: np.rint(np.asarray(v)).astype(np.int64) for t, v in the_bank(case).items()}
    out = {}
    for (tk, tp), oc in gen.sig_tuple(case["out_sig"]):
        acc = None
        for (sk, sp_), ic in gen.sig_tuple(case["in_sig"]):
            fk = (sk + tk, (sp_ + tp) % 2)
            if fk not in bank:
                continue
            w = W[(sk, sp_)][(tk, tp)]  # (oc, ic, nf)
            F = np.tensordot(w, bank[fk], axes=([2], [0]))  # (oc, ic, M.., tensor)
            conv = ref.convolve(d, X[(sk, sp_)][None].astype(np.int64), F.astype(np.int64), **rkw)[0]
            contr = ref.multicontract(conv, tuple((i, sk + i) for i in range(sk)), 1 + d)
            acc = contr if acc is None else acc + contr
        if acc is not None:
            out[(tk, tp)] = acc
    return out


def ref_bias(case, lin, Bv):
    """Apply the documented bias rule to the linear part (float64)."""
    d = case["d"]
    mode = BIAS_MODES[case["bias"]]
    if mode is True:
        mode = "auto"
    out = {}
    for t, a in lin.items():
        a = a.astype(np.float64)
        if mode is False:
            out[t] = a
        elif t == (0, 0) and mode in ("auto", "scalar"):
            out[t] = a + Bv[t]
        elif mode == "mean" or (mode == "auto" and t != (0, 0)):
            mean = a.mean(axis=tuple(range(1, 1 + d)), keepdims=True)
            out[t] = a + mean * Bv[t]
        else:  # 'scalar' on a non-scalar type: no bias
            out[t] = a
    return out


def make_input(case, seed, kind="int", shape=None):
    d = case["d"]
    shape = tuple(shape or case["opts"]["shape"])
    rng = np.random.default_rng(seed)
    X = {}
    for (k, p), c in gen.sig_tuple(case["in_sig"]):
        shp = (c,) + shape + (d,) * k
        X[(k, p)] = rng.integers(-3, 4, size=shp) if kind == "int" else rng.standard_normal(shp)
    return X


def to_mi(case, X, torus=None):
    d = case["d"]
    tor = tuple(bool(t) for t in (torus if torus is not None else case["opts"]["is_torus"]))
    return geom.MultiImage({t: jnp.asarray(a, dtype=jnp.float32) for t, a in X.items()}, d, tor)


def is_risky(case):
    o = case["opts"]
    # observed: aborts need image dilation > 1 together with stride > 1 or filter dilation > 1 (the twin evaluation of C04
    # raises the filter dilation), so every case with image dilation > 1 is isolated
    return o["lhs"] is not None and max(o["lhs"]) > 1
