import numpy as np, jax, jax.numpy as jnp, jax.random as random, itertools as it
import ginjax.geometric as geom, ginjax.ml as ml, ginjax.data as gdata, ginjax.models as models
rng = np.random.default_rng(0); D=2; sp=(2,3)
# ---------- C16
class LinModel:
    def __init__(self, W): self.W=W   # W[t]: (out_c, in_channels_total) ints
    def __call__(self, x, aux=None):
        out={}
        for t,w in self.W.items():
            out[t]=jnp.einsum('oc,c...->o...', jnp.array(w,dtype=jnp.float32), x[t])
        return geom.MultiImage(out, x.D, x.is_torus), aux
bad=0;n=0
for trial in range(200):
    past=int(rng.integers(1,5)); nsteps=int(rng.integers(1,5))
    alltypes=[(0,0),(1,0),(0,1),(1,1)]; rng.shuffle(alltypes)
    types=[tuple(t) for t in alltypes[:int(rng.integers(1,4))]]
    dyn_c={t:int(rng.integers(0,3)) for t in types}; 
    if all(v==0 for v in dyn_c.values()): dyn_c[types[0]]=1
    const_c={t:int(rng.integers(0,3)) for t in types}
    for t in types:
        if dyn_c[t]==0 and const_c[t]==0: const_c[t]=1
    data={}
    for t in types:
        nchan=dyn_c[t]*past+const_c[t]
        data[t]=jnp.array(rng.integers(-2,3,size=(nchan,)+sp+(D,)*t[0]).astype(np.float32))
    x=geom.MultiImage(data,D)
    W={t: rng.integers(-2,3,size=(dyn_c[t], dyn_c[t]*past+const_c[t])) for t in types if dyn_c[t]>0}
    model=LinModel(W)
    cdict={t:const_c[t] for t in types if const_c[t]>0}
    out,_=ml.autoregressive_map(model, x, None, past, nsteps, cdict)
    # reference
    win={t:[[np.asarray(data[t][c*past+j],dtype=np.int64) for j in range(past)] for c in range(dyn_c[t])] for t in types}
    con={t:[np.asarray(data[t][dyn_c[t]*past+i],dtype=np.int64) for i in range(const_c[t])] for t in types}
    preds={t:[[] for _ in range(dyn_c[t])] for t in types}
    for step in range(nsteps):
        newp={}
        for t,w in W.items():
            chans=[win[t][c][j] for c in range(dyn_c[t]) for j in range(past)]+con[t]
            newp[t]=[sum(int(w[o,i])*chans[i] for i in range(len(chans))) for o in range(dyn_c[t])]
        for t in W:
            for c in range(dyn_c[t]):
                preds[t][c].append(newp[t][c]); win[t][c]=win[t][c][1:]+[newp[t][c]]
    ok=set(out.keys())==set(W.keys())
    for t in W:
        exp=np.stack([preds[t][c][s] for c in range(dyn_c[t]) for s in range(nsteps)])
        if out[t].shape!=exp.shape or not np.array_equal(np.asarray(out[t]),exp): ok=False
    n+=1
    if not ok: bad+=1; print('C16 BAD',past,nsteps,types,dyn_c,const_c)
print('C16 checked',n,'bad',bad)
# ---------- C13 concat / concat_inverse / expand
bad=0
for trial in range(200):
    nl=int(rng.integers(1,4)); lead=tuple(int(v) for v in rng.permutation([2,3,4,5])[:nl])
    types=[(0,0),(1,0),(2,1),(0,1)]; rng.shuffle(types); types=[tuple(t) for t in types[:int(rng.integers(1,4))]]
    axis=int(rng.integers(0,nl))
    def mk(lead_): return geom.MultiImage({t: jnp.array(rng.integers(0,1000,size=lead_+sp+(D,)*t[0]).astype(np.float32)) for t in types},D)
    a=mk(lead); bl=list(lead); bl[axis]=int(rng.integers(1,4)); 
    btypes=[t for t in types if rng.random()<0.7] or [types[0]]
    b=geom.MultiImage({t: jnp.array(rng.integers(0,1000,size=tuple(bl)+sp+(D,)*t[0]).astype(np.float32)) for t in btypes},D)
    c=a.concat(b,axis=axis)
    sig={t:bl[axis] for t in btypes}
    a2,b2=c.concat_inverse(sig,axis=axis)
    ok = (a2==a) and (b2==b) and all(np.array_equal(np.asarray(a2[t]),np.asarray(a[t])) for t in types) and all(np.array_equal(np.asarray(b2[t]),np.asarray(b[t])) for t in btypes)
    # expand/combine
    ax=int(rng.integers(0,nl)); size=[d for d in range(1,lead[ax]+1) if lead[ax]%d==0][-1 if rng.random()<0.5 else 0]
    e=a.expand(ax,size).combine_axes((ax,ax+1)); ok = ok and all(np.array_equal(np.asarray(e[t]),np.asarray(a[t])) for t in types)
    s=a.to_scalar_multi_image().from_scalar_multi_image(a.get_signature()); ok = ok and all(np.array_equal(np.asarray(s[t]),np.asarray(a[t])) for t in types)
    if not ok: bad+=1; print('C13 BAD', lead, types, axis, btypes)
print('C13 bad',bad)
