import numpy as np, jax, jax.numpy as jnp, time, io, contextlib
import ginjax.geometric as geom
from refconv import ref_convolve
rng = np.random.default_rng(1)
bad=0; n=0; t0=time.time(); excs={}
for it_ in range(400):
    D = int(rng.choice([2,2,2,3]))
    sp = tuple(int(v) for v in rng.integers(1, 6 if D==2 else 4, size=D))
    k = int(rng.integers(0,3 if D==2 else 2)); kf = int(rng.integers(0,3 if D==2 else 2))
    B,C,O = (int(v) for v in rng.integers(1,3,size=3))
    mode = rng.choice(['TORUS','SAME','VALID','int','explicit','None'])
    if mode in ('TORUS','SAME','None'): fs = tuple(int(rng.choice([1,3,5])) for _ in range(D))
    else: fs = tuple(int(v) for v in rng.integers(1,4,size=D))
    if rng.random()<0.5: fs = (fs[0],)*D
    is_torus = tuple(bool(v) for v in rng.integers(0,2,size=D)) if rng.random()<0.7 else bool(rng.integers(0,2))
    stride = tuple(int(v) for v in rng.integers(1,3,size=D)) if rng.random()<0.3 else 1
    rhs = tuple(int(v) for v in rng.integers(1,4,size=D)) if rng.random()<0.4 else 1
    lhs = tuple(int(v) for v in rng.integers(1,4,size=D)) if rng.random()<0.3 else None
    padding = {'TORUS':'TORUS','SAME':'SAME','VALID':'VALID','None':None}.get(mode)
    if mode=='int': padding=int(rng.integers(0,3))
    if mode=='explicit': padding=tuple((int(a),int(b)) for a,b in rng.integers(0,3,size=(D,2)))
    A = rng.integers(-3,4,size=(B,C)+sp+(D,)*k); F = rng.integers(-3,4,size=(O,C)+fs+(D,)*kf)
    cfg = dict(D=D,sp=sp,k=k,kf=kf,B=B,C=C,O=O,fs=fs,is_torus=is_torus,stride=stride,padding=padding,lhs=lhs,rhs=rhs)
    try:
        exp = ref_convolve(D,A,F,is_torus,stride,padding,lhs,rhs)
    except Exception as e:
        excs.setdefault('ref:'+type(e).__name__,[]).append(cfg); continue
    if min(exp.shape)<=0:
        excs.setdefault('empty-out',[]).append(cfg); continue
    try:
        with contextlib.redirect_stdout(io.StringIO()):
            got = np.asarray(geom.convolve(D,jnp.array(A,dtype=jnp.float32),jnp.array(F,dtype=jnp.float32),is_torus,stride,padding,lhs,rhs))
    except Exception as e:
        excs.setdefault('impl:'+type(e).__name__+':'+str(e)[:60],[]).append(cfg); continue
    n+=1
    if got.shape!=exp.shape or not np.array_equal(got, exp):
        bad+=1; print('MISMATCH', cfg, got.shape, exp.shape)
print('checked',n,'bad',bad,'%.1fs'%(time.time()-t0))
for k_,v in excs.items(): print(k_, len(v), v[0])
