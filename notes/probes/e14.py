import numpy as np, jax, jax.numpy as jnp, jax.random as random, itertools as it
import ginjax.geometric as geom, ginjax.ml as ml, ginjax.data as gdata
rng = np.random.default_rng(0)
D=2
# ---------- C15
bad=0; n=0
for trial in range(300):
    T=int(rng.integers(2,13)); p=int(rng.integers(1,4)); f=int(rng.integers(1,4)); dt=int(rng.integers(1,4)); s=int(rng.integers(0,4))
    nwin = T - s - (p+f-1)*dt
    if nwin<1: continue
    types=[(0,0),(1,0),(0,1)][:int(rng.integers(1,4))]; rng.shuffle(types); types=[tuple(t) for t in types]
    ch={t:int(rng.integers(1,4)) for t in types}
    sp=(2,3)
    dyn={}
    for ti,t in enumerate(types):
        arr=np.zeros((ch[t]*T,)+sp+(D,)*t[0],dtype=np.float32)
        for c in range(ch[t]):
            for tt in range(T):
                base=((ti*8+c)*64+tt)*16
                arr[c*T+tt]= base + np.arange(np.prod(sp+(D,)*t[0])).reshape(sp+(D,)*t[0])
        dyn[t]=jnp.array(arr)
    ctypes=[(0,0),(1,1)][:int(rng.integers(0,3))]
    const={t: jnp.array(900000+100*i+np.arange(2*np.prod(sp+(D,)*t[0])).reshape((2,)+sp+(D,)*t[0]).astype(np.float32)) for i,t in enumerate(ctypes)}
    X,Y = gdata.times_series_to_multi_images(geom.MultiImage(dyn,D), geom.MultiImage(const,D), T, p, f, s, dt, 0)
    n+=1
    ok=True
    for t in types:
        xb=np.asarray(X[t]); yb=np.asarray(Y[t]); d=np.asarray(dyn[t])
        nconst = 2 if t in ctypes else 0
        if xb.shape[0]!=nwin or xb.shape[1]!=ch[t]*p+nconst or yb.shape[:2]!=(nwin,ch[t]*f): ok=False; break
        for w in range(nwin):
            for c in range(ch[t]):
                for j in range(p):
                    if not np.array_equal(xb[w,c*p+j], d[c*T+s+w+j*dt]): ok=False
                for j in range(f):
                    if not np.array_equal(yb[w,c*f+j], d[c*T+s+w+(p+j)*dt]): ok=False
            if nconst and not np.array_equal(xb[w,ch[t]*p:], np.asarray(const[t])): ok=False
    for t in ctypes:
        if t not in types:
            if t in Y.keys() or not all(np.array_equal(np.asarray(X[t])[w], np.asarray(const[t])) for w in range(nwin)): ok=False
    if not ok: bad+=1; print('C15 BAD', T,p,f,dt,s,types,ctypes)
print('C15 checked',n,'bad',bad)
# ---------- C17
bad=0
for trial in range(200):
    L=int(rng.integers(1,20)); B=int(rng.integers(1,L+1)); ndev=[d for d in range(1,B+1) if B%d==0][int(rng.integers(0,len([d for d in range(1,B+1) if B%d==0])))]
    key = None if rng.random()<0.3 else random.PRNGKey(int(rng.integers(0,1000)))
    mk = lambda types: geom.MultiImage({t: jnp.array(np.arange(L).reshape((L,1)+(1,)*D+(1,)*t[0])*np.ones((L,2,2,3)+(D,)*t[0]),dtype=jnp.float32) for t in types},D)
    Xs=[mk([(0,0),(1,0)]), mk([(1,1)]), mk([(1,0),(0,1),(0,0)])][:int(rng.integers(1,4))]
    out = ml.get_batches(Xs, B, key, devices=[jax.devices()[0]]*ndev)
    nb = L//B; ok = all(len(o)==nb for o in out); seen=[]
    for bi in range(nb):
        idxs=None
        for o in out:
            for t,blk in o[bi].items():
                blk=np.asarray(blk)
                if blk.shape[:2]!=(ndev,B//ndev): ok=False
                flat=blk.reshape((B,)+blk.shape[2:])
                iv=flat.reshape(B,-1)[:,0]
                if not (flat.reshape(B,-1)==iv[:,None]).all(): ok=False
                if idxs is None: idxs=iv
                elif not np.array_equal(idxs,iv): ok=False
        seen+=list(idxs)
    if len(set(seen))!=len(seen): ok=False
    if key is None and seen!=list(range(nb*B)): ok=False
    if not ok: bad+=1; print('C17 BAD',L,B,ndev,key)
print('C17 bad',bad)
