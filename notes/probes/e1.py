import itertools as it, numpy as np, jax, jax.numpy as jnp
import ginjax.geometric as geom

def ref_action(D, data, parity, g):
    """(g.A)(x) = det(g)^p g^{(x)k} A(g^-1 x) about centre; independent numpy implementation."""
    data = np.asarray(data, dtype=np.float64)
    s = np.array(data.shape[:D]); k = data.ndim - D
    g = np.asarray(g)
    r = np.abs(g @ s)  # new extents: axis i of output has extent of axis sigma^-1(i)
    out = np.zeros(tuple(r) + (D,)*k)
    c_in = (s-1)/2; c_out = (r-1)/2
    ginv = g.T
    det = round(np.linalg.det(g))
    for y in it.product(*[range(n) for n in r]):
        x = ginv @ (np.array(y)-c_out) + c_in
        xi = np.rint(x).astype(int)
        assert np.allclose(x, xi) and (xi>=0).all() and (xi<s).all(), (y,x)
        t = data[tuple(xi)]
        for ax in range(k):
            t = np.moveaxis(np.tensordot(g, t, axes=([1],[ax])), 0, ax)
        out[y] = (det**parity) * t
    return out

rng = np.random.default_rng(0)
for D in (2,3):
    ops = geom.make_all_operators(D)
    for shape in ([(3,3),(2,3),(4,2),(1,3)] if D==2 else [(2,2,2),(2,3,4),(1,2,3),(2,2,3),(3,1,1)]):
        for k in (0,1,2):
            for p in (0,1):
                bad=[]
                for gi,g in enumerate(ops):
                    A = rng.integers(-5,6,size=shape+(D,)*k).astype(np.float32)
                    got = np.asarray(geom.times_group_element(D, jnp.array(A), p, g, jax.lax.Precision.HIGHEST))
                    exp = ref_action(D, A, p, g)
                    if got.shape!=exp.shape or not np.allclose(got,exp,atol=1e-5):
                        bad.append(gi)
                if bad: print(D,shape,k,p,'BAD g idx',bad)
print('done')
