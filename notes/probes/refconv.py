import itertools as it, numpy as np
def norm_tuple(v, D):
    return tuple(v) if isinstance(v,(tuple,list)) else (v,)*D
def ref_padded(img, D, is_torus, fshape, padding, lhs_dil, rhs_dil):
    """img: (spatial..., comps) int64. returns padded/dilated array P per definition."""
    is_torus = norm_tuple(is_torus, D); rhs = norm_tuple(rhs_dil, D)
    if padding is None: padding = 'TORUS' if any(is_torus) else 'SAME'
    x = img
    if padding == 'TORUS':
        # wrap toroidal axes first (before lhs dilation - that is what the definition says: P = (optionally zero-interleaved) image wrapped periodically)
        pads = [(((M-1)//2)*r,)*2 if t else (0,0) for M,r,t in zip(fshape,rhs,is_torus)]
        zero = [(0,0) if t else (((M-1)//2)*r,)*2 for M,r,t in zip(fshape,rhs,is_torus)]
        wrap_first = True
    else:
        pads = [(0,0)]*D
        if padding == 'VALID': zero = [(0,0)]*D
        elif padding == 'SAME': zero = [(((M-1)//2)*r,)*2 for M,r in zip(fshape,rhs)]
        elif isinstance(padding,int): zero = [(padding,padding)]*D
        else: zero = [tuple(p) for p in padding]
    # periodic wrap
    for ax,(lo,hi) in enumerate(pads):
        n = x.shape[ax]
        idx = [(i - lo) % n for i in range(n+lo+hi)]
        x = np.take(x, idx, axis=ax)
    # lhs dilation
    if lhs_dil is not None:
        for ax,l in enumerate(lhs_dil):
            n = x.shape[ax]
            shp = list(x.shape); shp[ax] = (n-1)*l+1
            y = np.zeros(shp, dtype=x.dtype)
            sl = [slice(None)]*x.ndim; sl[ax] = slice(0,None,l)
            y[tuple(sl)] = x; x = y
    # zero pad
    x = np.pad(x, zero + [(0,0)]*(x.ndim-D))
    return x
def ref_convolve(D, image, filt, is_torus, stride=1, padding=None, lhs_dilation=None, rhs_dilation=1):
    """image (b,c,spatial,(D,)*k) ; filt (o,c,fspatial,(D,)*k'). out (b,o,outspatial,(D,)*(k+k')) exact int64."""
    image = np.asarray(image).astype(np.int64); filt = np.asarray(filt).astype(np.int64)
    B,C = image.shape[:2]; O = filt.shape[0]
    sp = image.shape[2:2+D]; k = image.ndim-2-D
    fs = filt.shape[2:2+D]; kf = filt.ndim-2-D
    stride = norm_tuple(stride,D); rhs = norm_tuple(rhs_dilation,D)
    out=None
    for b in range(B):
        for c in range(C):
            P = ref_padded(image[b,c], D, is_torus, fs, padding, lhs_dilation, rhs_dilation)
            osz = tuple((P.shape[ax] - (fs[ax]-1)*rhs[ax] - 1)//stride[ax] + 1 for ax in range(D))
            if out is None: out = np.zeros((B,O)+osz+(D,)*(k+kf), dtype=np.int64)
            for a in it.product(*[range(m) for m in fs]):
                sl = tuple(slice(a[ax]*rhs[ax], a[ax]*rhs[ax] + (osz[ax]-1)*stride[ax]+1, stride[ax]) for ax in range(D))
                patch = P[sl]  # osz + (D,)*k
                for o in range(O):
                    f = filt[(o,c)+a]  # (D,)*kf
                    out[b,o] += np.multiply.outer(patch, f) if kf>0 or True else patch*f
    return out
