import numpy as np, jax, jax.numpy as jnp, jax.random as random, time, optax, equinox as eqx
import ginjax.geometric as geom, ginjax.ml as ml, ginjax.models as models
D=2; ops = geom.make_all_operators(D)
cf = geom.get_invariant_filters([3],[0,1,2],[0,1],D,ops)
ins = geom.Signature((((0,0),1),((1,0),1))); outs = geom.Signature((((1,0),1),))
key = random.PRNGKey(0)
def rand_mi(sig, N, key, B):
    d={}
    for (k,p),c in sig:
        key,sk = random.split(key); d[(k,p)] = random.normal(sk,(B,c,)+(N,)*D+(D,)*k)
    return geom.MultiImage(d, D, True)
X = rand_mi(ins, 6, random.PRNGKey(1), 8); Y = rand_mi(outs, 6, random.PRNGKey(2), 8)
def map_and_loss(model, x, y, aux):
    pred, aux = jax.vmap(model, in_axes=(0,None), out_axes=(0,None))(x, aux)
    return ml.smse_loss(pred, y), aux
for opt_name, opt in [('sgd', optax.sgd(1e-2)), ('adamw', optax.adamw(1e-2, weight_decay=0.1))]:
    m = models.ResNet(D, ins, outs, depth=2, num_blocks=1, conv_filters=cf, key=key)
    t=time.time()
    m2, aux, tl, vl = ml.train(X, Y, map_and_loss, m, random.PRNGKey(3), ml.EpochStop(3), 4, opt)
    print(opt_name, 'train time %.1fs'%(time.time()-t), 'loss', tl)
    f0 = m.encoder[0].conv.invariant_filters; f1 = m2.encoder[0].conv.invariant_filters
    print({k: float(jnp.max(jnp.abs(f1[k]/jnp.where(f0[k]==0,1,f0[k]) - jnp.where(f0[k]==0,0,1)))) for k in f0.keys()})
    w0 = m.encoder[0].conv.weights; w1 = m2.encoder[0].conv.weights
    print('weights moved', float(jnp.max(jnp.abs(w0[(0,0)][(1,0)]-w1[(0,0)][(1,0)]))))
    x = X.get_one(0, keepdims=False); y = m2(x)[0]
    err = max(float(jnp.max(jnp.abs(m2(x.times_group_element(g))[0][(1,0)] - y.times_group_element(g)[(1,0)]))) for g in ops)
    print('equiv err after training', err, 'scale', float(jnp.max(jnp.abs(y[(1,0)]))))
