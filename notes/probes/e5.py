import itertools as it, numpy as np, jax, jax.numpy as jnp, jax.random as random, time
import ginjax.geometric as geom, ginjax.ml as ml, ginjax.models as models
import equinox as eqx
D=2; ops = geom.make_all_operators(D)
cf = geom.get_invariant_filters([3],[0,1,2],[0,1],D,ops)
uf = geom.get_invariant_filters([2],[0,1,2],[0,1],D,ops)
def perturb(model, key, scale=0.3):
    # perturb every trainable array leaf except the invariant filter banks
    is_filt = lambda x: isinstance(x, geom.MultiImage)
    leaves, treedef = jax.tree_util.tree_flatten(model, is_leaf=is_filt)
    new=[]
    for l in leaves:
        if eqx.is_inexact_array(l):
            key, sk = random.split(key); new.append(l + scale*random.normal(sk, l.shape))
        else: new.append(l)
    return jax.tree_util.tree_unflatten(treedef, new)
def rand_mi(sig, N, key, is_torus=True):
    d={}
    for (k,p),c in sig:
        key,sk = random.split(key); d[(k,p)] = random.normal(sk,(c,)+(N,)*D+(D,)*k)
    return geom.MultiImage(d, D, is_torus)
def eqv_err(model, x):
    errs=[]
    y = model(x)[0]
    scale = max(float(jnp.max(jnp.abs(v))) for v in y.values())
    for g in ops:
        l = model(x.times_group_element(g))[0]; r = y.times_group_element(g)
        if set(l.keys())!=set(r.keys()): errs.append(float('inf')); continue
        errs.append(max(float(jnp.max(jnp.abs(l[k]-r[k]))) for k in l.keys())/scale)
    return max(errs), y
key = random.PRNGKey(0)
sigs = [ (geom.Signature((((0,0),1),((1,0),1))), geom.Signature((((0,0),1),((1,0),1)))),
         (geom.Signature((((0,1),1),((0,0),1))), geom.Signature((((0,1),1),((1,0),1)))),
         (geom.Signature((((1,1),1),((0,0),2))), geom.Signature((((1,1),1),((0,0),1)))),
       ]
for ins, outs in sigs:
  for name, ctor in [('ResNet', lambda k: models.ResNet(D, ins, outs, depth=2, num_blocks=1, conv_filters=cf, key=k)),
                     ('ResNet-nogn-post', lambda k: models.ResNet(D, ins, outs, depth=2, num_blocks=1, conv_filters=cf, use_group_norm=False, preactivation_order=False, key=k)),
                     ('DilResNet-gn', lambda k: models.DilResNet(D, ins, outs, depth=2, num_blocks=1, conv_filters=cf, use_group_norm=True, key=k)),
                     ('UNet', lambda k: models.UNet(D, ins, outs, depth=2, num_downsamples=1, num_conv=1, conv_filters=cf, upsample_filters=uf, key=k)),
                     ('UNet-gn', lambda k: models.UNet(D, ins, outs, depth=2, num_downsamples=2, num_conv=1, conv_filters=cf, upsample_filters=uf, use_group_norm=True, key=k))]:
    t=time.time()
    try:
        key, k1,k2,k3 = random.split(key,4)
        m = ctor(k1); mp = perturb(m,k2)
        x = rand_mi(ins, 8, k3)
        e0,y0 = eqv_err(m,x); e1,y1 = eqv_err(mp,x)
        print(name, ins, '->', outs, '| got', y1.get_signature(), '| relerr init %.2e pert %.2e'%(e0,e1), '%.1fs'%(time.time()-t))
    except Exception as e:
        import traceback; print(name, ins, outs, 'EXC', type(e).__name__, str(e)[:200])
