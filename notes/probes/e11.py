import numpy as np, jax, jax.numpy as jnp, jax.random as random, tempfile, os
import ginjax.geometric as geom, ginjax.ml as ml, ginjax.models as models
import equinox as eqx
def t(name, f):
    try: print(name, '->', f())
    except Exception as e: print(name, 'EXC', type(e).__name__, str(e)[:120])
ops1 = geom.make_all_operators(1); print(ops1)
m1 = geom.MultiImage({(0,0): jnp.arange(6.).reshape(2,3), (0,1): jnp.arange(3.).reshape(1,3)}, 1)
t('D1 action', lambda: {k: np.asarray(v).tolist() for k,v in m1.times_group_element(ops1[1]).items()})
t('D1 single', lambda: geom.GeometricImage(jnp.arange(3.),1,1).times_group_element(ops1[1]).data)
for nl in (0,1,2,3):
    lead = (2,3,4)[:nl]
    m = geom.MultiImage({(1,0): jnp.ones(lead+(3,5,2)), (0,1): jnp.ones(lead+(3,5))}, 2)
    t(f'nl={nl} n_leading/spatial', lambda: (m.get_n_leading(), m.get_spatial_dims()))
    t(f'nl={nl} tge diag', lambda: m.times_group_element(np.array([[1,0],[0,-1]]))[(1,0)].shape)
    t(f'nl={nl} norm', lambda: {k:v.shape for k,v in m.norm().items()})
    t(f'nl={nl} to_images', lambda: len(m.to_images()))
    t(f'nl={nl} to_scalar', lambda: {k:v.shape for k,v in m.to_scalar_multi_image().items()})
    t(f'nl={nl} avgpool', lambda: {k:v.shape for k,v in geom.MultiImage({(1,0): jnp.ones(lead+(4,6,2))},2).average_pool(2).items()})
    t(f'nl={nl} vector rt', lambda: geom.MultiImage.from_vector(m.to_vector(), m)==m)
print('--- save/load')
D=2; ops=geom.make_all_operators(D); cf = geom.get_invariant_filters([3],[0,1,2],[0,1],D,ops)
ins = geom.Signature((((0,0),1),((1,0),1)))
ma = models.ResNet(D, ins, ins, depth=2, num_blocks=1, conv_filters=cf, key=random.PRNGKey(0))
mb = models.ResNet(D, ins, ins, depth=2, num_blocks=1, conv_filters=cf, key=random.PRNGKey(1))
with tempfile.TemporaryDirectory() as d:
    ml.save(os.path.join(d,'m.eqx'), ma); mc = ml.load(os.path.join(d,'m.eqx'), mb)
x = geom.MultiImage({(0,0): random.normal(random.PRNGKey(2),(1,4,4)), (1,0): random.normal(random.PRNGKey(3),(1,4,4,2))}, D)
print({k: bool(jnp.array_equal(ma(x)[0][k], mc(x)[0][k])) for k in x.keys()}, {k: bool(jnp.array_equal(ma(x)[0][k], mb(x)[0][k])) for k in x.keys()})
