import numpy as np, jax, jax.numpy as jnp, jax.random as random, time, equinox as eqx
import ginjax.geometric as geom, ginjax.ml as ml
from e1 import ref_action
def act(m, g):
    return geom.MultiImage({kp: jnp.array(np.stack([ref_action(m.D, np.asarray(v[c]), kp[1], g) for c in range(v.shape[0])]).astype(np.float32)) for kp,v in m.items()}, m.D, m.is_torus)
def randomize(mod, key):
    leaves, td = jax.tree_util.tree_flatten(mod); new=[]
    for l in leaves:
        if eqx.is_inexact_array(l): key,sk = random.split(key); new.append(random.normal(sk,l.shape))
        else: new.append(l)
    return jax.tree_util.tree_unflatten(td,new)
def defect(f, x, ops):
    y = f(x); worst={}
    for g in ops:
        l = f(act(x,g)); r = act(y,g)
        for kp in r.keys():
            d = float(jnp.max(jnp.abs(l[kp]-r[kp])))/(float(jnp.max(jnp.abs(r[kp])))+1)
            worst[kp]=max(worst.get(kp,0),d)
    return worst
key=random.PRNGKey(0)
for D in (2,3):
    ops = geom.make_all_operators(D); N=4
    types_norm = [(0,0),(0,1),(1,0),(1,1)]; types_vn = types_norm+[(2,0),(2,1)]
    c=4
    mk = lambda types,k0: geom.MultiImage({kp: random.normal(random.PRNGKey(k0+i),(c,)+(N,)*D+(D,)*kp[0]) for i,kp in enumerate(types)}, D)
    x = mk(types_norm, 10)
    for groups in (1,2,4):
        gn = randomize(ml.GroupNorm(x.get_signature(), D, groups), random.PRNGKey(5))
        print('D',D,'GroupNorm groups',groups, {k:'%.1e'%v for k,v in defect(gn, x, ops).items()})
    x = mk(types_vn, 20)
    for act_f in (jax.nn.relu, jax.nn.gelu, jax.nn.tanh):
        vn = randomize(ml.VectorNeuronNonlinear(x.get_signature(), D, act_f, key=random.PRNGKey(6)), random.PRNGKey(7))
        print('D',D,'VN',act_f.__name__, {k:'%.1e'%v for k,v in defect(vn, x, ops).items()})
    mp = ml.MaxNormPool(2); print('D',D,'MaxNormPool', {k:'%.1e'%v for k,v in defect(mp, x, ops).items()})
    ap = lambda m: m.average_pool(2); print('D',D,'avgpool', {k:'%.1e'%v for k,v in defect(ap, x, ops).items()})
    up = lambda m: geom.MultiImage({kp: jnp.stack([geom.GeometricImage(v[i],kp[1],D).unpool(2).data for i in range(v.shape[0])]) for kp,v in m.items()}, D)
    print('D',D,'unpool', {k:'%.1e'%v for k,v in defect(up, x, ops).items()})
