import numpy as np, jax, jax.numpy as jnp, jax.random as random, itertools as it, equinox as eqx
import ginjax.geometric as geom, ginjax.ml as ml, ginjax.models as models
from e1 import ref_action
rng=np.random.default_rng(0); D=2
# C14: norm / get_component / average_pool with leading axes
bad=0
for trial in range(100):
    nl=int(rng.integers(1,4)); lead=tuple(int(v) for v in rng.permutation([3,5,7])[:nl]); sp=(4,6)
    types=[(0,0),(1,0),(2,1),(1,1)]; rng.shuffle(types); types=[tuple(t) for t in types[:int(rng.integers(1,4))]]
    m=geom.MultiImage({t: jnp.array(rng.integers(-4,5,size=lead+sp+(D,)*t[0]).astype(np.float32)) for t in types},D)
    nm=m.norm(); exp=np.concatenate([np.sqrt((np.asarray(m[t]).astype(np.float64).reshape(lead+sp+(-1,))**2).sum(-1)) for t in types],axis=nl-1)
    ok = list(nm.keys())==[(0,0)] and nm[(0,0)].shape==exp.shape and np.allclose(np.asarray(nm[(0,0)]),exp,atol=1e-5)
    ap=m.average_pool(2)
    for t in types:
        a=np.asarray(m[t]).astype(np.float64); e=a.reshape(lead+(2,2,3,2)+(D,)*t[0]).mean(axis=(nl+1,nl+3))
        ok = ok and ap[t].shape==e.shape and np.allclose(np.asarray(ap[t]),e,atol=1e-5)
    if not ok: bad+=1; print('C14 BAD',lead,types)
print('C14 bad',bad)
# C18 losses vs definition
bad=0
for trial in range(100):
    Bn=int(rng.integers(1,4)); steps=int(rng.integers(1,4)); sp=(2,3)
    types=[(0,0),(1,0),(2,0),(0,1)]; rng.shuffle(types); types=[tuple(t) for t in types[:int(rng.integers(1,4))]]
    ch={t:int(rng.integers(1,3))*steps for t in types}
    x=geom.MultiImage({t: jnp.array(rng.normal(size=(Bn,ch[t])+sp+(D,)*t[0]).astype(np.float32)) for t in types},D)
    y=geom.MultiImage({t: jnp.array(rng.normal(size=(Bn,ch[t])+sp+(D,)*t[0]).astype(np.float32)) for t in types},D)
    per=np.zeros(Bn); perstep=np.zeros((Bn,steps)); nper=np.zeros(Bn)
    for t in types:
        d=(np.asarray(x[t]).astype(np.float64)-np.asarray(y[t]).astype(np.float64))**2
        per+=d.reshape(Bn,-1).sum(1)/6
        perstep+=d.reshape((Bn,ch[t]//steps,steps,-1)).sum(axis=(1,3))/6
        yn=(np.asarray(y[t]).astype(np.float64)**2).reshape((Bn,ch[t])+sp+(-1,)).sum(-1)
        nper+=(d.reshape((Bn,ch[t])+sp+(-1,))/(yn[...,None]+1e-5)).reshape(Bn,-1).sum(1)/6
    ok = np.allclose(float(ml.smse_loss(x,y)),per.mean(),rtol=1e-5) and np.allclose(np.asarray(ml.smse_loss(x,y,None)),per,rtol=1e-5)
    ok = ok and np.allclose(np.asarray(ml.timestep_smse_loss(x,y,steps,None)),perstep,rtol=1e-5) and np.allclose(np.asarray(ml.timestep_smse_loss(x,y,steps)),perstep.mean(0),rtol=1e-5)
    ok = ok and np.allclose(float(ml.normalized_smse_loss(x,y)),nper.mean(),rtol=1e-4)
    ok = ok and float(ml.smse_loss(x,x))==0.0
    if not ok: bad+=1; print('C18 BAD',Bn,steps,types, float(ml.normalized_smse_loss(x,y)),nper.mean())
print('C18 bad',bad)
# C10 GroupAverage with subgroups and a nasty inner model
class Inner(eqx.Module):
    W: dict; M: dict; out_sig: tuple
    def __call__(self,x,aux=None):
        out={}
        for (t,c) in self.out_sig:
            acc=0
            for s,blk in x.items():
                if s[0]==t[0]: acc=acc+jnp.einsum('oc,c...->o...',self.W[(s,t)],jnp.tanh(blk*self.M[s]))
            out[t]=acc
        return geom.MultiImage(out,x.D,x.is_torus),aux
ops=geom.make_all_operators(D)
groups={'B2':ops,'SO':[g for g in ops if round(np.linalg.det(g))==1],'C2d':geom.make_C2_group(D),'C2':[np.eye(2,dtype=int),-np.eye(2,dtype=int)],'refl':[np.eye(2,dtype=int),np.array([[1,0],[0,-1]])]}
N=4
in_sig=(((0,0),2),((1,0),1),((0,1),1),((1,1),2)); out_sig=(((1,1),1),((0,1),2),((0,0),1),((1,0),2))
key=random.PRNGKey(0)
x=geom.MultiImage({t: random.normal(random.PRNGKey(i),(c,N,N)+(D,)*t[0]) for i,(t,c) in enumerate(in_sig)},D)
W={(s,t): random.normal(random.PRNGKey(100+i*10+j),(ct,cs)) for i,(s,cs) in enumerate(in_sig) for j,(t,ct) in enumerate(out_sig) if s[0]==t[0]}
M={s: random.normal(random.PRNGKey(200+i),(cs,N,N)+(D,)*s[0]) for i,(s,cs) in enumerate(in_sig)}
inner=Inner(W,M,out_sig)
def act(m,g): return geom.MultiImage({kp: jnp.array(np.stack([ref_action(D,np.asarray(v[c]),kp[1],g) for c in range(v.shape[0])]).astype(np.float32)) for kp,v in m.items()},D,m.is_torus)
for name,G in groups.items():
    w=models.GroupAverage(inner,G,always_average=True); y=w(x)[0]
    dmax=0; dinner=0
    for g in G:
        l=w(act(x,g))[0]; r=act(y,g); dmax=max(dmax,max(float(jnp.max(jnp.abs(l[k]-r[k]))) for k in r.keys()))
        li=inner(act(x,g))[0]; ri=act(inner(x)[0],g); dinner=max(dinner,max(float(jnp.max(jnp.abs(li[k]-ri[k]))) for k in ri.keys()))
    off=models.GroupAverage(inner,G); same=all(bool(jnp.array_equal(off(x)[0][k],inner(x)[0][k])) for k in y.keys())
    print(name,len(G),'wrapper defect %.1e inner defect %.1e off==inner'%(dmax,dinner),same, list(y.keys()))
