import numpy as np, jax, jax.numpy as jnp, itertools as it
import ginjax.geometric as geom
from e1 import ref_action
rng=np.random.default_rng(0)
def gi(D,shape,k,p): return geom.GeometricImage(jnp.array(rng.integers(-3,4,size=shape+(D,)*k).astype(np.float32)),p,D)
def act(img,g): return geom.GeometricImage(jnp.array(ref_action(img.D,np.asarray(img.data),img.parity,g).astype(np.float32)),img.parity,img.D)
bad=0;n=0
for D,shape in ((2,(3,3)),(2,(2,2)),(3,(2,2,2))):
    ops=geom.make_all_operators(D)
    for trial in range(12):
        kA=int(rng.integers(0,3)); kB=int(rng.integers(1,3)); pA,pB=(int(v) for v in rng.integers(0,2,size=2))
        A=gi(D,shape,kA,pA); B=gi(D,shape,kB,pB); C=gi(D,(3,)*D,1,int(rng.integers(0,2)))
        progs={
          'mul-contract': lambda A,B,C: (A*B).contract(0,kA+kB-1) if kA+kB>=2 else A*B,
          'levi': lambda A,B,C: (A*B).levi_civita_contract(tuple(range(D-1)) if D>2 else 0) if kA+kB>=D-1 else A*B,
          'conv-levi-norm': lambda A,B,C: (B.convolve_with(C)).levi_civita_contract(tuple(range(D-1)) if D>2 else 1),
          'transpose-sum': lambda A,B,C: (B*B) + (B*B).transpose(tuple(reversed(range(2*kB)))),
          'norm': lambda A,B,C: (A*B).norm(),
        }
        for name,f in progs.items():
            r=f(A,B,C)
            for g in ops:
                rg=f(act(A,g),act(B,g),act(C,g)); exp=act(r,g)
                n+=1
                if rg.k!=r.k or rg.parity!=r.parity or not np.allclose(np.asarray(rg.data),np.asarray(exp.data),atol=1e-4):
                    bad+=1; print('BAD',D,name,kA,kB,pA,pB); break
print('C05 probe evaluations',n,'bad',bad)
