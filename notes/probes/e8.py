import time, numpy as np, jax, jax.numpy as jnp
import ginjax.geometric as geom
rng = np.random.default_rng(0)
def run(n, disable):
    t=time.time()
    for i in range(n):
        N1,N2 = rng.integers(2,7,size=2); k=int(rng.integers(0,3)); kf=int(rng.integers(0,2)); M=int(rng.choice([1,3]))
        A = jnp.array(rng.integers(-3,4,size=(1,1,N1,N2)+(2,)*k).astype(np.float32))
        F = jnp.array(rng.integers(-3,4,size=(1,1,M,M)+(2,)*kf).astype(np.float32))
        if disable:
            with jax.disable_jit():
                r = geom.convolve(2,A,F,True)
        else:
            r = geom.convolve(2,A,F,True)
        r.block_until_ready()
    return (time.time()-t)/n
print('jit per-case', run(30, False))
print('nojit per-case', run(30, True))
print('nojit per-case again', run(60, True))
