import numpy as np, jax, jax.numpy as jnp, jax.random as random, time
import ginjax.geometric as geom, ginjax.ml as ml, ginjax.models as models
D=3; t=time.time(); ops = geom.make_all_operators(D)
cf = geom.get_invariant_filters([3],[0,1,2],[0,1],D,ops); print('filters D3 %.1fs'%(time.time()-t), cf.get_signature())
t=time.time(); uf = geom.get_invariant_filters([2],[0,1,2],[0,1],D,ops); print('up filters D3 %.1fs'%(time.time()-t), uf.get_signature())
ins = geom.Signature((((0,0),1),((1,0),1))); outs = geom.Signature((((1,0),1),))
x = geom.MultiImage({(0,0): random.normal(random.PRNGKey(0),(1,4,4,4)), (1,0): random.normal(random.PRNGKey(1),(1,4,4,4,3))}, D)
for name, ctor in [('ResNet', lambda k: models.ResNet(D, ins, outs, depth=2, num_blocks=1, conv_filters=cf, key=k)),
                   ('UNet', lambda k: models.UNet(D, ins, outs, depth=2, num_downsamples=1, num_conv=1, conv_filters=cf, upsample_filters=uf, key=k))]:
    t=time.time(); m = ctor(random.PRNGKey(2)); y = m(x)[0]; t1=time.time()-t
    g = ops[30]; t=time.time()
    l = m(x.times_group_element(g))[0]; r = y.times_group_element(g)
    print(name, 'first call %.1fs, second %.1fs'%(t1, time.time()-t), 'err', float(jnp.max(jnp.abs(l[(1,0)]-r[(1,0)]))))
