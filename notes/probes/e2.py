import itertools as it, numpy as np, jax, jax.numpy as jnp
import ginjax.geometric as geom
import ginjax.geometric.functional_geometric_image as F
from e1 import ref_action
def fixed_keys(D, data, gg):
    spatial_dims, _ = F.parse_shape(data.shape, D)
    rotated_spatial_dims = tuple(np.abs(gg @ np.array(spatial_dims)))
    centering_coords = (np.array(rotated_spatial_dims).reshape((1, D)) - 1) / 2
    rotated_centering_coords = (np.array(spatial_dims).reshape((1,D)) - 1)/2
    key_array = np.array([key for key in it.product(*list(range(N) for N in rotated_spatial_dims))])
    shifted_key_array = key_array - centering_coords
    return np.rint((shifted_key_array @ gg) + rotated_centering_coords).astype(int)
ops = geom.make_all_operators(3)
A = np.arange(24).reshape(2,3,4).astype(np.float32)
g = ops[24]; print(g)
print(np.abs(g@np.array([2,3,4])), np.abs(g.T@np.array([2,3,4])))
got = np.asarray(geom.times_group_element(3, jnp.array(A), 0, g)); exp = ref_action(3,A,0,g)
print(got.shape, exp.shape, (got!=exp).sum(), sorted(got.ravel())==sorted(exp.ravel()))
k1 = F.get_rotated_keys(3, A, g); k2 = fixed_keys(3, A, g)
print((k1!=k2).any(axis=1).sum(), k1.min(0), k1.max(0), k2.min(0), k2.max(0))
