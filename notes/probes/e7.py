import itertools as it, numpy as np, jax, jax.numpy as jnp, jax.random as random, time
import ginjax.geometric as geom, ginjax.ml as ml, ginjax.models as models, ginjax.data as gdata
import equinox as eqx
key = random.PRNGKey(0)
print('--- Climate1D key order')
for order in ([(0,0),(1,0)], [(1,0),(0,0)], [(1,0),(0,1),(0,0)], [(0,0),(0,1),(1,0)]):
    c=2; past=2; nl, nt = 4, 3
    d={}
    for i,(k,p) in enumerate(order):
        d[(k,p)] = random.normal(random.PRNGKey(i),(c*past,nl,nt)+(2,)*k)
    x = geom.MultiImage(d,2,(True,False))
    ok = x.get_signature()
    ok1 = models.Climate1D.get_1d_signature(ok, nt)
    m = models.Climate1D(models.ModelWrapper(1, eqx.nn.Identity(), ok1, True), ok, past, past, (nl,nt), {})
    try:
        out = m.from1d(m.to1d(x))
        print(order, 'roundtrip equal', out==x, list(out.keys()), {k: bool(jnp.array_equal(out[k],x[k])) for k in x.keys()})
        print('   1d sig declared', ok1, 'actual', m.to1d(x).get_signature())
    except Exception as e: print(order,'EXC',type(e).__name__,str(e)[:100])
print('--- to/from scalar, 2 leading, k=2, D=3')
sig = (((2,0),2),((0,1),3),((1,0),1))
d = {kp: random.normal(random.PRNGKey(7+i),(5,c,2,3,4)+(3,)*kp[0]) for i,(kp,c) in enumerate(sig)}
x = geom.MultiImage(d,3)
s = x.to_scalar_multi_image(); print(s.get_signature(), s[(0,0)].shape)
back = s.from_scalar_multi_image(x.get_signature()); print(all(bool(jnp.array_equal(back[k],x[k])) for k in x.keys()))
print('--- autoregressive')
print('--- get_batches devices'); 
X = geom.MultiImage({(0,0): jnp.arange(10.).reshape(10,1,1,1)*jnp.ones((10,1,2,2))},2)
b = ml.get_batches(X, 4, random.PRNGKey(0), devices=[jax.devices()[0]]*2)
print([bb[(0,0)].shape for bb in b[0]], [np.asarray(bb[(0,0)])[...,0,0,0].tolist() for bb in b[0]])
