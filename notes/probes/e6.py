import itertools as it, numpy as np, jax, jax.numpy as jnp, time
import ginjax.geometric as geom
def closure(gens, D):
    G = {tuple(np.eye(D,dtype=int).ravel())}
    frontier = list(G)
    gens = [np.array(g,dtype=int) for g in gens]
    while frontier:
        new=[]
        for a in frontier:
            A = np.array(a).reshape(D,D)
            for g in gens:
                b = tuple((g@A).ravel())
                if b not in G: G.add(b); new.append(b)
        frontier=new
    return [np.array(a).reshape(D,D) for a in sorted(G)]
def burnside(G, D, M, k, p):
    tot=0
    c=(M-1)/2
    for g in G:
        fixed=0
        for x in it.product(range(M),repeat=D):
            y = g@(np.array(x)-c)+c
            if np.allclose(y,x): fixed+=1
        tot += fixed * int(round(np.trace(g)))**k * int(round(np.linalg.det(g)))**p
    assert tot % len(G)==0
    return tot//len(G)
for D in (2,3):
    ops = geom.make_all_operators(D)
    groups = {'B':ops, 'SO':[g for g in ops if round(np.linalg.det(g))==1], 'C2^d':geom.make_C2_group(D), 'triv':[np.eye(D,dtype=int)],
              'C4z': closure([ops[[i for i,g in enumerate(ops) if (g[:2,:2]==np.array([[0,-1],[1,0]])).all() and (D==2 or g[2,2]==1)][0]]],D)}
    for name,G in groups.items():
        for M in (1,2,3,4):
            for k in (0,1,2,3):
                for p in (0,1):
                    if (M**D*D**k)**2*len(G) > 3e7: continue
                    t=time.time()
                    fs = geom.get_unique_invariant_filters(M,k,p,D,G)
                    n=len(fs); b=burnside(G,D,M,k,p)
                    rank = np.linalg.matrix_rank(np.array([np.asarray(f.data).ravel() for f in fs])) if n else 0
                    flag = '' if (n==b==rank) else '  <<<<<< MISMATCH'
                    if flag or (M==3 and k==2): print(D,name,len(G),'M',M,'k',k,'p',p,'n',n,'burnside',b,'rank',rank,'%.1fs'%(time.time()-t),flag)
