#!/bin/sh
# Offline setup: make sure hypothesis is importable by /venv/bin/python (re-install from the wheelhouse into .deps if not),
# then run the oracle self test.
cd "$(dirname "$0")" || exit 2
if ! /venv/bin/python -c "import hypothesis" 2>/dev/null; then
  /venv/bin/pip install --no-index --find-links /opt/veriftools/wheels --target .deps hypothesis || exit 2
fi
PYTHONPATH=.:.deps /venv/bin/python -m gv.ref.core || exit 2
