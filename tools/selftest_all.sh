#!/bin/sh
# tools/selftest_all.sh : every mutant of every property (scratch copies of /repo/src only); prints one line per mutant
cd "$(dirname "$0")/.." || exit 2
for i in ${IDS:-01 02 03 04 05 06 07 08 09 10 11 12 13 14 15 16 17 18 19 20}; do
  ./selftest C$i 2>&1 | grep "^MUTANT" | cut -c1-200
done
