#!/usr/bin/env python3
"""tools/mkmutant.py <ID>/<name> <file relative to /repo> <old> <new> : write mutants/<ID>/<name>.patch (exact, unique string replace)."""
import difflib, os, sys
name, rel, old, new = sys.argv[1:5]
old = old.encode().decode("unicode_escape"); new = new.encode().decode("unicode_escape")
src = open(os.path.join("/repo", rel)).read()
assert src.count(old) == 1, f"{src.count(old)} occurrences of old string"
mut = src.replace(old, new)
diff = "".join(difflib.unified_diff(src.splitlines(True), mut.splitlines(True), "a/" + rel, "b/" + rel))
out = os.path.join(os.path.dirname(os.path.dirname(os.path.abspath(__file__))), "mutants", name + ".patch")
os.makedirs(os.path.dirname(out), exist_ok=True)
open(out, "w").write(diff)
print("wrote", out)
