#!/bin/sh
# tools/harvest.sh : rebuild part of the regression corpus (regress/<ID>/*.json) from (a) the tree as it was before the fix: commits
# (every original defect, shrunk), (b) every seeded change. Uses scratch copies only; /repo is never modified.
cd "$(dirname "$0")/.." || exit 2
BASE=${BASE_COMMIT:-8f3a7f9}
W=/tmp/gv_prefix
rm -rf "$W"; git -C /repo worktree add -q --detach "$W" "$BASE" || exit 2
for ID in ${PREFIX_IDS:-C02 C08 C10 C11 C12 C14 C18 C19 C20 C07}; do
  out=$(GINJAX_SRC="$W/src" VERIF_EVIDENCE_SUFFIX=.mutant ./check "$ID" --tier quick 2>&1); rc=$?
  mkdir -p "regress/$ID"; n=0
  for R in $(echo "$out" | sed -n 's/^VIOLATION property=[A-Z0-9]* replay=//p'); do n=$((n+1)); cp "$R" "regress/$ID/original_tree_$n.json"; done
  echo "$ID on the original tree: rc=$rc, $n shrunk case(s) kept"
done
git -C /repo worktree remove --force "$W"
for D in seeded/*; do
  [ -f "$D/patch.diff" ] || continue
  ID=$(echo "$(basename "$D")" | cut -c1-3)
  HARVEST=1 ./selftest "$ID" "$D/patch.diff" 2>&1 | cut -c1-160 | tail -1
done
