#!/bin/sh
# tools/eval_seed.sh <ID> [suffix] [check ids...] : import a seeded change from /tmp/seed_<ID>/_seed into seeded/<ID><suffix>/, confirm the
# demonstration both ways on scratch copies of /repo/src, and run the given checks (default: the property's own) against it.
cd "$(dirname "$0")/.." || exit 2
ID=$1; SUF=${2:-}; shift; [ $# -gt 0 ] && shift
CHECKS=${*:-$ID}
SRC=/tmp/seed_$ID/_seed; DST=seeded/$ID$SUF
mkdir -p "$DST"
[ -f "$SRC/patch.diff" ] && cp "$SRC/patch.diff" "$SRC/demo.py" "$DST/" && cp "$SRC/NOTES.md" "$DST/" 2>/dev/null
S=$(mktemp -d /tmp/gvseed.XXXXXX)
mkdir -p "$S/clean" "$S/mut"
cp -r /repo/src "$S/clean/src"; cp -r /repo/src "$S/mut/src"
(cd "$S/mut" && patch -s -p1 < "/verif/$DST/patch.diff") || { echo "$ID: patch does not apply"; rm -rf "$S"; exit 2; }
(cd "$S/clean" && JAX_PLATFORMS=cpu PYTHONPATH="$S/clean/src" /venv/bin/python "/verif/$DST/demo.py" > "$S/clean.out" 2>&1); rc_clean=$?
(cd "$S/mut" && JAX_PLATFORMS=cpu PYTHONPATH="$S/mut/src" /venv/bin/python "/verif/$DST/demo.py" > "$S/mut.out" 2>&1); rc_mut=$?
echo "$ID$SUF demo: unchanged rc=$rc_clean changed rc=$rc_mut"
tail -3 "$S/mut.out" | cut -c1-200
rm -rf "$S"
for C in $CHECKS; do
  ./selftest "$C" "$DST/patch.diff" 2>&1 | cut -c1-260 | tail -2
done
