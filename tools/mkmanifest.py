#!/usr/bin/env python3
"""Regenerate MANIFEST.json from the property modules that exist (static parse, no jax import)."""
import ast, json, os, re, sys
ROOT = os.path.dirname(os.path.dirname(os.path.abspath(__file__)))
ALL = [f"C{i:02d}" for i in range(1, 21)]

def static_fields(path):
    src = open(path).read()
    tree = ast.parse(src)
    out = {}
    for node in tree.body:
        if isinstance(node, ast.Assign) and len(node.targets) == 1 and isinstance(node.targets[0], ast.Name):
            name = node.targets[0].id
            if name in ("TECHNIQUE", "RULE", "ASSUMPTIONS", "LEVEL_TEXT", "LEVEL_NOTE", "DESIGN_REF", "NOT_APPLICABLE"):
                try:
                    out[name] = ast.literal_eval(node.value)
                except Exception:
                    pass
    return out

checks, na = [], []
for pid in ALL:
    path = os.path.join(ROOT, "gv", "props", pid.lower() + ".py")
    if not os.path.exists(path):
        na.append({"property_id": pid, "reason": "check not built yet in this revision (planned: DESIGN.md section 4)"})
        continue
    f = static_fields(path)
    if f.get("NOT_APPLICABLE"):
        na.append({"property_id": pid, "reason": f["NOT_APPLICABLE"]})
        continue
    checks.append({
        "property_id": pid,
        "quick_cmd": f"./check {pid} --tier quick",
        "thorough_cmd": f"./check {pid} --tier thorough",
        "evidence_file": f"evidence/{pid}.json",
        "replay_cmd_template": f"./check {pid} --replay {{path}}",
        "engine": "gv",
        "level_claimed": {
            "category": "exploration",
            "text": f.get("LEVEL_TEXT", "Exploration: generated-input search against an explicit oracle (" + f.get("TECHNIQUE", "property-based testing") + "). The property held on every generated / enumerated case; this is not a proof of absence. Bounds, case counts, the non-triviality rule, the label distribution and samples are in the evidence file; enumerated sub-domains are marked exhaustive there."),
            "design_ref": f.get("DESIGN_REF", "DESIGN.md section 4, " + pid),
        },
        "level_note": f.get("LEVEL_NOTE", "; ".join(f.get("ASSUMPTIONS", []))),
        "technique": f.get("TECHNIQUE", "property-based testing (Hypothesis) against an independent reference"),
    })
manifest = {
    "version": 1,
    "setup_cmd": "sh ./setup.sh",
    "hooks": {
        "guard": "GINJAX_VERIF",
        "enable": "no source hooks are needed: every property is observable through the public API; checks export GINJAX_VERIF=1 for uniformity",
        "baseline_off_cmd": "cd /repo && /venv/bin/python -m pytest -ra -q -p no:cacheprovider --timeout=900 --continue-on-collection-errors",
        "source_commits": [],
        "add_only": True,
    },
    "engines": [{"name": "gv", "path": "gv/", "serves_properties": [c["property_id"] for c in checks],
                 "kind_free_text": "Hypothesis-driven property-based testing / exhaustive small-domain enumeration, sharded over 16 processes, against a pure-numpy reference model (gv/ref)"}],
    "checks": checks,
    "not_applicable": na,
    "notes": "Repairs of genuine defects are unguarded 'fix:' commits in /repo, listed in known_findings.json. ./check <ID> --tier quick|thorough; VERIF_SEED selects the Hypothesis seed.",
}
json.dump(manifest, open(os.path.join(ROOT, "MANIFEST.json"), "w"), indent=1)
print("checks:", [c["property_id"] for c in checks], "na:", [n["property_id"] for n in na])
