#!/bin/sh
# tools/run_all.sh <tier> [seed] (IDS="01 04" restricts the list) : run every registered check once, print one line per check (used for sweeps via `vp run`)
cd "$(dirname "$0")/.." || exit 2
TIER=${1:-quick}; SEED=${2:-1}
for i in ${IDS:-01 02 03 04 05 06 07 08 09 10 11 12 13 14 15 16 17 18 19 20}; do
  start=$(date +%s)
  out=$(VERIF_SEED=$SEED ./check C$i --tier "$TIER" 2>&1); rc=$?
  end=$(date +%s)
  echo "C$i tier=$TIER seed=$SEED rc=$rc wall=$((end-start))s :: $(echo "$out" | grep -m1 "^C$i tier" )"
  echo "$out" | grep -E "VIOLATION|HARNESS|KNOWN-FINDING|NOTE" | head -5
done
