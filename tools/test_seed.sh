#!/bin/sh
# tools/test_seed.sh <ID>[suffix] : run the repository's whole test suite on a scratch worktree with seeded/<ID>/patch.diff applied;
# writes seeded/<ID>/tests.txt (summary line) and removes the worktree.
ID=$1
W=/tmp/tst_$ID
git -C /repo worktree add -q --detach "$W" HEAD || exit 2
git -C "$W" apply "/verif/seeded/$ID/patch.diff" || { echo "patch does not apply" > "/verif/seeded/$ID/tests.txt"; git -C /repo worktree remove --force "$W"; exit 2; }
(cd "$W" && JAX_PLATFORMS=cpu PYTHONPATH="$W/src" /venv/bin/python -m pytest -q -p no:cacheprovider --timeout=900 -x 2>&1 | tail -3) > "/verif/seeded/$ID/tests.txt" 2>&1
git -C /repo worktree remove --force "$W"
